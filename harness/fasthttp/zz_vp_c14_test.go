package fasthttp

// C14 — the ConnState hook follows the documented state machine.
//
// One generated case = one Server (ReduceMemoryUsage on/off, reached through Serve on a harness listener that
// hands out scripted vpWire connections, or through ServeConn) and 1-3 connections served one after the other,
// each with a generated history: no bytes then close, partial head then close, 1-3 requests (pipelined or one
// at a time), malformed request, read/idle timeout, hijack, rejection by Server.Concurrency.
// The hook records (connection, state, vpWire.Delivered() at the instant of the callback).
//
// Oracle (property text + doc comments of ConnState / StateNew / StateActive / StateIdle / StateHijacked /
// StateClosed in server.go): per connection the word is
//     New (Active Idle)* Active? (Closed | Hijacked)
// with exactly one terminal state and nothing after it; the k-th Active is reported only when at least one
// byte of the k-th request of that connection had been handed to the server (request start offsets are known by
// construction); Hijacked is the terminal state iff the hijack handler was run ("StateHijacked represents a
// hijacked connection ... does not transition to StateClosed").
// Connections refused before being served by ServeConn (ErrConcurrencyLimit) get no callbacks; for those
// only "whatever was reported is a valid prefix" is asserted.

import (
	"context"
	"bytes"
	"errors"
	"fmt"
	"io"
	"net"
	"strings"
	"sync"
	"testing"
	"time"

	"pgregory.net/rapid"
)

const (
	vpC14KeyActiveEarly = "C14/active-before-first-byte-of-first-request"
	vpC14KeyNoNew       = "C14/serveconn-never-reports-statenew"
)

const vpC14Wait = 20 * time.Second

type vpC14Ev struct {
	State     ConnState
	Delivered int
}

type vpC14Rec struct {
	mu     sync.Mutex
	cond   *sync.Cond
	words  map[net.Conn][]vpC14Ev
	other  int                // callbacks for connections the harness cannot attribute
	byAddr map[string]*vpWire // remote address -> connection handed to the server (every wire has its own)
	broken []string           // callbacks whose conn argument could not even be asked for its address
}

func vpC14NewRec() *vpC14Rec {
	r := &vpC14Rec{words: map[net.Conn][]vpC14Ev{}, byAddr: map[string]*vpWire{}}
	r.cond = sync.NewCond(&r.mu)
	return r
}

func (r *vpC14Rec) register(w *vpWire) {
	r.mu.Lock()
	r.byAddr[w.remote.String()] = w
	r.mu.Unlock()
}

// vpC14RemoteOf asks the hook's conn argument which connection it is about, the way a hook can: by its
// remote address. (The server may hand the hook a wrapper of the connection it was given.)
func vpC14RemoteOf(c net.Conn) (addr string, panicked any) {
	defer func() { panicked = recover() }()
	return c.RemoteAddr().String(), nil
}

// resolve maps a connection as the server presents it (possibly wrapped) to the wire the harness made.
func (r *vpC14Rec) resolve(c net.Conn) *vpWire {
	if w, ok := c.(*vpWire); ok {
		return w
	}
	addr, _ := vpC14RemoteOf(c)
	r.mu.Lock()
	defer r.mu.Unlock()
	return r.byAddr[addr]
}

func (r *vpC14Rec) hook(c net.Conn, st ConnState) {
	addr, panicked := vpC14RemoteOf(c)
	r.mu.Lock()
	defer r.mu.Unlock()
	defer r.cond.Broadcast()
	if panicked != nil {
		r.broken = append(r.broken, fmt.Sprintf("ConnState(%T, %v): RemoteAddr() of the hook's connection argument panicked: %v", c, st, panicked))
		return
	}
	w, ok := c.(*vpWire)
	if !ok {
		w = r.byAddr[addr]
	}
	if w == nil {
		r.other++
		return
	}
	r.words[w] = append(r.words[w], vpC14Ev{State: st, Delivered: w.Delivered()})
}

func (r *vpC14Rec) word(c net.Conn) []vpC14Ev {
	r.mu.Lock()
	defer r.mu.Unlock()
	return append([]vpC14Ev(nil), r.words[c]...)
}

// waitTerminal waits until a terminal state was reported for c.
func (r *vpC14Rec) waitTerminal(c net.Conn, max time.Duration) bool {
	deadline := time.Now().Add(max)
	stop := make(chan struct{})
	defer close(stop)
	go func() {
		select {
		case <-time.After(max):
			r.mu.Lock()
			r.cond.Broadcast()
			r.mu.Unlock()
		case <-stop:
		}
	}()
	r.mu.Lock()
	defer r.mu.Unlock()
	for {
		for _, e := range r.words[c] {
			if e.State == StateClosed || e.State == StateHijacked {
				return true
			}
		}
		if !time.Now().Before(deadline) {
			return false
		}
		r.cond.Wait()
	}
}

func vpC14WordString(evs []vpC14Ev) string {
	var b strings.Builder
	for i, e := range evs {
		if i > 0 {
			b.WriteByte(' ')
		}
		name := fmt.Sprintf("state(%d)", int(e.State))
		if int(e.State) >= 0 && int(e.State) < len(stateName) {
			name = stateName[e.State]
		}
		fmt.Fprintf(&b, "%s@%d", name, e.Delivered)
	}
	return b.String()
}

func vpC14Shape(evs []vpC14Ev) string {
	var b strings.Builder
	for _, e := range evs {
		switch e.State {
		case StateNew:
			b.WriteByte('N')
		case StateActive:
			b.WriteByte('A')
		case StateIdle:
			b.WriteByte('I')
		case StateClosed:
			b.WriteByte('C')
		case StateHijacked:
			b.WriteByte('H')
		default:
			b.WriteByte('?')
		}
	}
	return b.String()
}

type vpC14Oracle struct {
	AllowMissingNew       bool // known finding vpC14KeyNoNew (ServeConn connections only)
	SkipFirstActiveBytes  bool // known finding vpC14KeyActiveEarly (connections of a non-ReduceMemoryUsage server only)
	PrefixOnly            bool // connection refused before being served: any valid prefix (incl. nothing) is fine
	HijackRan             bool
	CheckHijackedTerminal bool
}

// vpC14CheckWord checks one connection's callback sequence. starts[k] = offset (in the client's byte stream)
// of the first byte of the k-th request unit the client sent.
func vpC14CheckWord(evs []vpC14Ev, starts []int, o vpC14Oracle) string {
	if len(evs) == 0 {
		if o.PrefixOnly {
			return ""
		}
		return "no ConnState callback at all for a served connection"
	}
	i := 0
	if evs[0].State == StateNew {
		i = 1
	} else if !o.AllowMissingNew {
		return fmt.Sprintf("first state reported is %s, want new", vpC14WordString(evs[:1]))
	}
	const (
		expActiveOrEnd = iota // after New or Idle
		expIdleOrEnd          // after Active
		done
	)
	mode := expActiveOrEnd
	actives := 0
	for ; i < len(evs); i++ {
		e := evs[i]
		if mode == done {
			return fmt.Sprintf("callback #%d (%s) after the terminal state", i, vpC14WordString(evs[i:i+1]))
		}
		switch e.State {
		case StateNew:
			return fmt.Sprintf("callback #%d: new reported again", i)
		case StateActive:
			if mode != expActiveOrEnd {
				return fmt.Sprintf("callback #%d: active directly after active (no idle in between)", i)
			}
			if actives == 0 && o.SkipFirstActiveBytes {
				// known finding: the first active of such a connection is reported before anything was read,
				// whether or not a request ever arrives - its byte condition is not asserted
			} else if actives >= len(starts) {
				return fmt.Sprintf("callback #%d: active reported %d times but the client sent bytes of only %d requests", i, actives+1, len(starts))
			} else if e.Delivered <= starts[actives] {
				return fmt.Sprintf("callback #%d: active for request #%d reported when the server had received %d bytes in total, but that request starts at offset %d (no byte of it received yet)", i, actives, e.Delivered, starts[actives])
			}
			actives++
			mode = expIdleOrEnd
		case StateIdle:
			if mode != expIdleOrEnd {
				return fmt.Sprintf("callback #%d: idle without a preceding active", i)
			}
			mode = expActiveOrEnd
		case StateClosed, StateHijacked:
			mode = done
			if o.CheckHijackedTerminal {
				if e.State == StateHijacked && !o.HijackRan {
					return "terminal state hijacked although no hijack handler was run for this connection"
				}
				if e.State == StateClosed && o.HijackRan {
					return "terminal state closed although the connection was handed to a hijack handler"
				}
			}
		default:
			return fmt.Sprintf("callback #%d: unknown state %d", i, int(e.State))
		}
	}
	if mode != done && !o.PrefixOnly {
		return "no terminal state (closed/hijacked) was reported"
	}
	return ""
}

// ---- histories

type vpC14Hist struct {
	Kind      string   // nobytes | partial | requests | malformed | timeout | hijack | rejected
	Units     [][]byte // request units in order (complete requests, last one possibly partial/malformed/hijacking)
	Trailing  []byte   // bytes after a hijacking request (belong to no request)
	Pipelined bool     // all units in one Feed (else one at a time, waiting for the server to settle)
	Plan      []int
	EOFFirst  bool   // nobytes: client EOF is already there when the server gets the connection
	End       string // eof | timeout | shutdown (left idle; Server.Shutdown ends it)
	CloseErr  bool   // the connection's Close() closes it and reports an error
	WriteFail int    // > 0: the client is gone for writing - Write fails once this many bytes went out (a fault at whichever write crosses it)
}

func (h vpC14Hist) String() string {
	var us []string
	for _, u := range h.Units {
		us = append(us, vpQuote(u, 60))
	}
	return fmt.Sprintf("{%s units=[%s] trailing=%d pipelined=%v plan=%v eoffirst=%v end=%s writefail=%d closeerr=%v}", h.Kind, strings.Join(us, ", "), len(h.Trailing), h.Pipelined, h.Plan, h.EOFFirst, h.End, h.WriteFail, h.CloseErr)
}

type vpC14Cfg struct {
	RMU           bool
	ViaServe      bool
	Keep          bool
	ReadTimeoutMs int
	Concurrency   int
	MaxConnsPerIP int // > 0: the server wraps every connection for per-IP accounting (the limit itself is never reached here)
}

type vpC14ConnResult struct {
	Hist      vpC14Hist
	Word      []vpC14Ev
	Starts    []int
	HijackRan bool
	Refused   bool // ServeConn returned ErrConcurrencyLimit
	Blocker   bool
	Out       []byte
}

type vpC14Env struct {
	cfg          vpC14Cfg
	srv          *Server
	rec          *vpC14Rec
	ln           *vpC14Listener
	mu           sync.Mutex
	cond         *sync.Cond
	hjRan        map[net.Conn]bool // hijack handler was started for this raw connection
	hjActive     int               // hijack handlers currently running
	scActive     int               // ServeConn calls currently running
	nWires       int
	serveConnErr map[net.Conn]error
}

// waitFor blocks until pred() (evaluated under e.mu) holds or max elapsed.
func (e *vpC14Env) waitFor(max time.Duration, pred func() bool) bool {
	deadline := time.Now().Add(max)
	stop := make(chan struct{})
	defer close(stop)
	go func() {
		select {
		case <-time.After(max):
			e.mu.Lock()
			e.cond.Broadcast()
			e.mu.Unlock()
		case <-stop:
		}
	}()
	e.mu.Lock()
	defer e.mu.Unlock()
	for {
		if pred() {
			return true
		}
		if !time.Now().Before(deadline) {
			return false
		}
		e.cond.Wait()
	}
}

type vpC14Listener struct {
	ch     chan net.Conn
	closed chan struct{}
	once   sync.Once
}

func (l *vpC14Listener) Accept() (net.Conn, error) {
	select {
	case c := <-l.ch:
		return c, nil
	case <-l.closed:
		return nil, io.EOF
	}
}
func (l *vpC14Listener) Close() error { l.once.Do(func() { close(l.closed) }); return nil }
func (l *vpC14Listener) Addr() net.Addr {
	return &net.TCPAddr{IP: net.IPv4(127, 0, 0, 1), Port: 8080}
}

func vpC14NewEnv(cfg vpC14Cfg) *vpC14Env {
	e := &vpC14Env{cfg: cfg, rec: vpC14NewRec(), hjRan: map[net.Conn]bool{}, serveConnErr: map[net.Conn]error{}}
	e.cond = sync.NewCond(&e.mu)
	e.srv = &Server{
		ReduceMemoryUsage:     cfg.RMU,
		KeepHijackedConns:     cfg.Keep,
		Concurrency:           cfg.Concurrency,
		MaxConnsPerIP:         cfg.MaxConnsPerIP,
		ReadTimeout:           time.Duration(cfg.ReadTimeoutMs) * time.Millisecond,
		MaxIdleWorkerDuration: 100 * time.Millisecond, // only so that the worker pool's janitor goroutine ends soon after Serve returns
		Logger:                vpNopLogger{},
		ConnState:             e.rec.hook,
		Handler: func(ctx *RequestCtx) {
			if strings.HasPrefix(string(ctx.Path()), "/hj") {
				raw := net.Conn(e.rec.resolve(ctx.Conn()))
				keepReading := ctx.Request.Header.Peek("X-Vp-Read") != nil
				if ctx.Request.Header.Peek("X-Vp-Noresp") != nil {
					ctx.HijackSetNoResponse(true)
				}
				ctx.Hijack(func(c net.Conn) {
					e.mu.Lock()
					e.hjRan[raw] = true
					e.hjActive++
					e.cond.Broadcast()
					e.mu.Unlock()
					if keepReading {
						io.Copy(io.Discard, c)
					}
					c.Write([]byte("<<hijacked>>"))
					if cfg.Keep {
						c.Close() // KeepHijackedConns: closing is the handler's job (keeps the scripted client from waiting)
					}
					e.mu.Lock()
					e.hjActive--
					e.cond.Broadcast()
					e.mu.Unlock()
				})
				return
			}
			ctx.SetBodyString("ok")
		},
	}
	return e
}

// vpC14Serve hands w to the server (Serve: through the listener; ServeConn: in a goroutine).
func (e *vpC14Env) serve(w *vpWire) {
	if e.cfg.ViaServe {
		e.ln.ch <- w
		return
	}
	e.mu.Lock()
	e.scActive++
	e.mu.Unlock()
	go func() {
		err := e.srv.ServeConn(w)
		e.mu.Lock()
		e.serveConnErr[w] = err
		e.scActive--
		e.cond.Broadcast()
		e.mu.Unlock()
	}()
}

// runConn plays one history on a fresh connection. hold=true leaves the connection open (blocker of the
// rejection scenario); the returned finish func ends it.
func (e *vpC14Env) runConn(h vpC14Hist, hold bool) (w *vpWire, starts []int, finish func()) {
	w = vpNewWire(nil, h.Plan, false)
	w.writeErrAfter = h.WriteFail
	if h.CloseErr {
		w.closeErr = errors.New("vp: close reports an error")
	}
	e.mu.Lock()
	e.nWires++
	w.remote = &net.TCPAddr{IP: net.IPv4(10, 1, 2, byte(3+e.nWires%2)), Port: 40000 + e.nWires}
	e.mu.Unlock()
	e.rec.register(w)
	off := 0
	for _, u := range h.Units {
		starts = append(starts, off)
		off += len(u)
	}
	if h.Kind == "nobytes" && h.EOFFirst {
		w.FinishInput()
	}
	if h.Pipelined {
		var all []byte
		for _, u := range h.Units {
			all = append(all, u...)
		}
		all = append(all, h.Trailing...)
		w.Feed(all)
		e.serve(w)
		w.WaitIdleOrClosed(vpC14Wait)
	} else {
		e.serve(w)
		w.WaitIdleOrClosed(vpC14Wait)
		for i, u := range h.Units {
			if i == len(h.Units)-1 {
				u = append(append([]byte(nil), u...), h.Trailing...)
			}
			w.Feed(u)
			w.WaitIdleOrClosed(vpC14Wait)
		}
	}
	finish = func() {
		if h.End == "timeout" {
			// the server must end the connection by itself (read / idle timeout)
			if e.terminalOrReturned(w, vpC14Wait) {
				return
			}
		}
		w.FinishInput()
	}
	if !hold {
		finish()
	}
	return w, starts, finish
}

// terminalOrReturned waits until the connection reached a terminal state (Serve) / ServeConn returned.
func (e *vpC14Env) terminalOrReturned(w *vpWire, max time.Duration) bool {
	if e.cfg.ViaServe {
		return e.rec.waitTerminal(w, max)
	}
	return e.waitFor(max, func() bool { _, ok := e.serveConnErr[w]; return ok })
}

// vpC14RunCase serves the histories one after the other and returns the per-connection results.
func vpC14RunCase(cfg vpC14Cfg, hists []vpC14Hist) (res []vpC14ConnResult, fail string) {
	e := vpC14NewEnv(cfg)
	var serveDone chan error
	if cfg.ViaServe {
		e.ln = &vpC14Listener{ch: make(chan net.Conn), closed: make(chan struct{})}
		serveDone = make(chan error, 1)
		go func() { serveDone <- e.srv.Serve(e.ln) }()
	}
	var wires []*vpWire
	add := func(h vpC14Hist, w *vpWire, starts []int, blocker bool) {
		wires = append(wires, w)
		res = append(res, vpC14ConnResult{Hist: h, Starts: starts, Blocker: blocker})
	}
	var held []*vpWire // idle keep-alive connections that stay open until Server.Shutdown
	for _, h := range hists {
		if h.End == "shutdown" && cfg.ViaServe {
			w, starts, _ := e.runConn(h, true)
			add(h, w, starts, false)
			held = append(held, w)
			continue
		}
		if h.Kind == "rejected" {
			// blocker connection: one request, then stays idle and occupies the only worker / concurrency slot
			bh := vpC14Hist{Kind: "requests", Units: [][]byte{[]byte("GET /blocker HTTP/1.1\r\nHost: vp.example\r\n\r\n")}, End: "eof"}
			bw, bstarts, bfinish := e.runConn(bh, true)
			add(bh, bw, bstarts, true)
			rh := h
			rh.Pipelined = true
			rw, rstarts, _ := e.runConn(rh, false)
			add(rh, rw, rstarts, false)
			if !e.terminalOrReturned(rw, vpC14Wait) {
				fail = "connection offered while Concurrency was exhausted: neither refused nor served to the end within 20s"
			}
			bfinish()
			if !e.terminalOrReturned(bw, vpC14Wait) && fail == "" {
				fail = "blocker connection: no terminal state within 20s after client EOF"
			}
			continue
		}
		w, starts, _ := e.runConn(h, false)
		add(h, w, starts, false)
		if !e.terminalOrReturned(w, vpC14Wait) && fail == "" {
			fail = fmt.Sprintf("connection with history %s: no terminal state within 20s after the client finished", h.String())
		}
	}
	// stop everything
	if cfg.ViaServe {
		if len(held) > 0 {
			// graceful shutdown with idle keep-alive connections open: the server closes them itself
			sctx, cancel := context.WithTimeout(context.Background(), vpC14Wait)
			if err := e.srv.ShutdownWithContext(sctx); err != nil {
				vpNote("Shutdown with %d idle connections returned %v (not judged here)", len(held), err)
			}
			cancel()
			for _, w := range held {
				if !e.rec.waitTerminal(w, vpC14Wait) && fail == "" {
					fail = "idle keep-alive connection: no terminal state within 20s after Shutdown"
				}
			}
		}
		e.ln.Close()
		select {
		case <-serveDone:
		case <-time.After(vpC14Wait):
			if fail == "" {
				fail = "Serve did not return within 20s after the listener was closed"
			}
		}
	}
	for _, w := range wires {
		w.FinishInput()
	}
	if !e.waitFor(vpC14Wait, func() bool { return e.scActive == 0 }) && fail == "" {
		fail = "ServeConn did not return within 20s after client EOF"
	}
	// the hijack handler goroutine is started before hijacked is reported: give it the time to show up, then
	// wait until every started hijack handler has ended (they read to EOF at most)
	for _, w := range wires {
		word := e.rec.word(w)
		if n := len(word); n > 0 && word[n-1].State == StateHijacked {
			e.waitFor(vpC14Wait, func() bool { return e.hjRan[w] })
		}
	}
	if !e.waitFor(vpC14Wait, func() bool { return e.hjActive == 0 }) && fail == "" {
		fail = "a hijack handler did not see EOF within 20s"
	}
	time.Sleep(time.Millisecond) // detection opportunity only: a spurious late callback gets a chance to show up
	for _, w := range wires {
		w.Close()
	}
	for i, w := range wires {
		res[i].Word = e.rec.word(w)
		res[i].Out = w.Out()
		e.mu.Lock()
		res[i].HijackRan = e.hjRan[w]
		if err, ok := e.serveConnErr[w]; ok && err == ErrConcurrencyLimit {
			res[i].Refused = true
		}
		e.mu.Unlock()
	}
	e.rec.mu.Lock()
	other := e.rec.other
	broken := append([]string(nil), e.rec.broken...)
	e.rec.mu.Unlock()
	if len(broken) > 0 && fail == "" {
		fail = fmt.Sprintf("%d ConnState callbacks came with a connection argument that cannot be used to tell which connection they are about: %s", len(broken), broken[0])
	}
	if other > 0 && fail == "" {
		fail = fmt.Sprintf("%d ConnState callbacks for connections the harness never handed to the server", other)
	}
	return res, fail
}

// vpC14Judge applies the oracle to every connection of a case.
func vpC14Judge(cfg vpC14Cfg, res []vpC14ConnResult, skipFirstActive, allowNoNew bool) string {
	for i, r := range res {
		o := vpC14Oracle{
			AllowMissingNew:       allowNoNew && !cfg.ViaServe,
			SkipFirstActiveBytes:  skipFirstActive && !cfg.RMU,
			PrefixOnly:            r.Refused,
			HijackRan:             r.HijackRan,
			CheckHijackedTerminal: true,
		}
		if msg := vpC14CheckWord(r.Word, r.Starts, o); msg != "" {
			return fmt.Sprintf("connection #%d (%s): %s; word = [%s]", i, r.Hist.Kind, msg, vpC14WordString(r.Word))
		}
	}
	return ""
}

// ---- generators

func vpC14Req(i int, kind int) []byte {
	switch kind {
	case 1:
		return []byte(fmt.Sprintf("POST /r%d HTTP/1.1\r\nHost: vp.example\r\nContent-Length: 5\r\n\r\nhello", i))
	case 2:
		return []byte(fmt.Sprintf("GET /r%d HTTP/1.1\r\nHost: vp.example\r\nConnection: close\r\n\r\n", i))
	case 3:
		return []byte(fmt.Sprintf("GET /r%d HTTP/1.0\r\nHost: vp.example\r\n\r\n", i))
	case 4:
		return []byte(fmt.Sprintf("POST /r%d HTTP/1.1\r\nHost: vp.example\r\nTransfer-Encoding: chunked\r\n\r\n3\r\nabc\r\n0\r\n\r\n", i))
	default:
		return []byte(fmt.Sprintf("GET /r%d HTTP/1.1\r\nHost: vp.example\r\n\r\n", i))
	}
}

var vpC14Malformed = []string{
	"GET / HTTP/1.1\r\nHost vp.example\r\n\r\n",
	"GET / HTTP/1.1\r\nHost: a\r\nContent-Length: abc\r\n\r\n",
	"POST / HTTP/1.1\r\nHost: a\r\nTransfer-Encoding: chunked\r\n\r\nZZ\r\n",
	"\x16\x03\x01\x02\x00\x01\x00\x01\xfc\x03\x03",
	"GET / HTTP/1.1\r\nHost: a\r\nContent-Length: 1\r\nContent-Length: 2\r\n\r\nab",
	"NOT-HTTP\r\n\r\n",
	"GET / HTTP/1.1\r\nX-Long: " + strings.Repeat("a", 5000) + "\r\n\r\n",
	"\r\n\r\n\r\n",
	" ",
}

func vpC14GenPlan(t *rapid.T, lb string) []int {
	switch rapid.IntRange(0, 4).Draw(t, lb+"plankind") {
	case 0, 1:
		return nil
	case 2:
		return []int{1}
	case 3:
		return []int{rapid.IntRange(2, 40).Draw(t, lb+"plank")}
	default:
		n := rapid.IntRange(1, 5).Draw(t, lb+"plann")
		var p []int
		for i := 0; i < n; i++ {
			p = append(p, rapid.IntRange(1, 70).Draw(t, lb+"plansz"))
		}
		return p
	}
}

func vpC14GenHist(t *rapid.T, lb string, kind string) vpC14Hist {
	h := vpC14Hist{Kind: kind, End: "eof"}
	h.Plan = vpC14GenPlan(t, lb)
	h.Pipelined = rapid.Bool().Draw(t, lb+"pipelined")
	genReqs := func(lo, hi int, allowClosing bool) {
		n := rapid.IntRange(lo, hi).Draw(t, lb+"nreq")
		for i := 0; i < n; i++ {
			k := rapid.SampledFrom([]int{0, 0, 0, 1, 4}).Draw(t, lb+"reqkind")
			if allowClosing && i == n-1 && rapid.IntRange(0, 3).Draw(t, lb+"closing") == 0 {
				k = rapid.SampledFrom([]int{2, 3}).Draw(t, lb+"closekind")
			}
			h.Units = append(h.Units, vpC14Req(i, k))
		}
	}
	switch kind {
	case "nobytes":
		h.EOFFirst = rapid.Bool().Draw(t, lb+"eoffirst")
	case "partial":
		genReqs(0, 2, false)
		full := vpC14Req(len(h.Units), rapid.SampledFrom([]int{0, 1, 4}).Draw(t, lb+"partialkind"))
		cut := rapid.IntRange(1, len(full)-1).Draw(t, lb+"cut")
		h.Units = append(h.Units, full[:cut])
	case "requests":
		genReqs(1, 3, true)
	case "shutdown":
		h.End = "shutdown"
		genReqs(1, 3, false)
	case "malformed":
		genReqs(0, 2, false)
		h.Units = append(h.Units, []byte(rapid.SampledFrom(vpC14Malformed).Draw(t, lb+"malformed")))
	case "timeout":
		h.End = "timeout"
		genReqs(0, 2, false)
		if rapid.IntRange(0, 2).Draw(t, lb+"timeoutpartial") == 0 {
			full := vpC14Req(len(h.Units), 0)
			cut := rapid.IntRange(1, len(full)-1).Draw(t, lb+"cut")
			h.Units = append(h.Units, full[:cut])
		}
	case "hijack":
		genReqs(0, 2, false)
		var b bytes.Buffer
		fmt.Fprintf(&b, "GET /hj%d HTTP/1.1\r\nHost: vp.example\r\n", len(h.Units))
		if rapid.IntRange(0, 2).Draw(t, lb+"hjnoresp") == 0 {
			b.WriteString("X-Vp-Noresp: 1\r\n")
		}
		if rapid.Bool().Draw(t, lb+"hjread") {
			b.WriteString("X-Vp-Read: 1\r\n")
		}
		if rapid.IntRange(0, 4).Draw(t, lb+"hjclose") == 0 {
			b.WriteString("Connection: close\r\n") // documented: the hijack handler is skipped, the connection closed
		}
		b.WriteString("\r\n")
		h.Units = append(h.Units, b.Bytes())
		if rapid.Bool().Draw(t, lb+"hjtrailing") {
			h.Trailing = []byte(rapid.SampledFrom([]string{"x", "GET /after HTTP/1.1\r\nHost: vp.example\r\n\r\n", "\x00\x01\x02 raw protocol bytes", "\r\n"}).Draw(t, lb+"trailing"))
		}
	case "rejected":
		// the connection that arrives while Concurrency is exhausted: with or without bytes
		if rapid.Bool().Draw(t, lb+"rejbytes") {
			genReqs(1, 2, false)
		}
		h.Pipelined = true
	}
	h.CloseErr = rapid.IntRange(0, 5).Draw(t, lb+"closeerr") == 0
	if (kind == "requests" || kind == "hijack" || kind == "malformed" || kind == "partial") && rapid.IntRange(0, 4).Draw(t, lb+"writefail") == 0 {
		// a write fault: at the first byte, inside the first response, or at a later response / the write-out that
		// precedes a hijack hand-over
		h.WriteFail = rapid.SampledFrom([]int{1, 1, 30, 150, 200, 350}).Draw(t, lb+"writefailat")
	}
	return h
}

var vpC14ProbeOnce sync.Once

func vpC14Probes() {
	vpC14ProbeOnce.Do(func() {
		// (a) no ReduceMemoryUsage: active is reported for the first request before any byte was received
		present, detail := false, ""
		for _, via := range []bool{true, false} {
			cfg := vpC14Cfg{RMU: false, ViaServe: via}
			for _, h := range []vpC14Hist{
				{Kind: "nobytes", End: "eof"},
				{Kind: "requests", End: "eof", Units: [][]byte{vpC14Req(0, 0)}},
			} {
				res, fail := vpC14RunCase(cfg, []vpC14Hist{h})
				if fail == "" {
					fail = vpC14Judge(cfg, res, false, true)
				}
				if fail != "" {
					present = true
					detail += fmt.Sprintf("[serve=%v %s] %s; ", via, h.Kind, fail)
				}
			}
		}
		vpProbe(vpC14KeyActiveEarly, present, detail)
		// (b) ServeConn never reports new
		present, detail = false, ""
		cfg := vpC14Cfg{RMU: true, ViaServe: false}
		for _, h := range []vpC14Hist{
			{Kind: "nobytes", End: "eof"},
			{Kind: "requests", End: "eof", Units: [][]byte{vpC14Req(0, 0), vpC14Req(1, 0)}, Pipelined: true},
		} {
			res, fail := vpC14RunCase(cfg, []vpC14Hist{h})
			if fail == "" {
				fail = vpC14Judge(cfg, res, true, false)
			}
			if fail != "" {
				present = true
				detail += fmt.Sprintf("[%s] %s; ", h.Kind, fail)
			}
		}
		vpProbe(vpC14KeyNoNew, present, detail)
	})
}

var vpC14Kinds = []string{"nobytes", "partial", "requests", "requests", "malformed", "timeout", "hijack", "hijack", "rejected", "shutdown"}

func TestVP_C14_ConnState(t *testing.T) {
	vpC14Probes()
	rapid.Check(t, func(t *rapid.T) {
		cfg := vpC14Cfg{
			RMU:      rapid.Bool().Draw(t, "rmu"),
			ViaServe: rapid.Bool().Draw(t, "viaserve"),
			Keep:     rapid.IntRange(0, 3).Draw(t, "keep") == 0,
		}
		cfg.MaxConnsPerIP = rapid.SampledFrom([]int{0, 0, 0, 8, 100}).Draw(t, "maxConnsPerIP")
		n := rapid.SampledFrom([]int{1, 1, 2, 3}).Draw(t, "nconn")
		var hists []vpC14Hist
		for i := 0; i < n; i++ {
			kind := rapid.SampledFrom(vpC14Kinds).Draw(t, fmt.Sprintf("c%d.kind", i))
			if kind == "rejected" && i != n-1 {
				kind = "requests" // the rejection scenario needs Concurrency=1 and is kept last
			}
			if kind == "rejected" {
				for j := range hists { // no connection may be left open in front of the rejection scenario
					if hists[j].End == "shutdown" {
						hists[j].End, hists[j].Kind = "eof", "requests"
					}
				}
			}
			if kind == "shutdown" && !cfg.ViaServe {
				kind = "requests" // Shutdown only reaches connections accepted by Serve
			}
			hists = append(hists, vpC14GenHist(t, fmt.Sprintf("c%d.", i), kind))
			if kind == "timeout" {
				cfg.ReadTimeoutMs = 20
			}
			if kind == "rejected" {
				cfg.Concurrency = 1
			}
		}
		if cfg.ReadTimeoutMs == 0 && rapid.IntRange(0, 5).Draw(t, "longtimeout") == 0 {
			cfg.ReadTimeoutMs = 3000 // deadline code paths without the timeout ever firing
		}
		skipFirst, allowNoNew := vpKnownOpen(vpC14KeyActiveEarly), vpKnownOpen(vpC14KeyNoNew)
		res, fail := vpC14RunCase(cfg, hists)
		if fail == "" {
			fail = vpC14Judge(cfg, res, skipFirst, allowNoNew)
		}
		for _, r := range res {
			if skipFirst && !cfg.RMU {
				for _, e := range r.Word {
					if e.State == StateActive {
						vpExclude(vpC14KeyActiveEarly) // the byte condition of this connection's first active is not asserted
						break
					}
				}
			}
			if allowNoNew && !cfg.ViaServe && len(r.Word) > 0 {
				vpExclude(vpC14KeyNoNew) // the leading new is not required for this ServeConn connection
			}
			kind := r.Hist.Kind
			if r.Blocker {
				kind = "blocker"
			}
			if r.Hist.Kind == "rejected" || r.Refused {
				if r.Refused || bytes.Contains(r.Out, []byte(" 503 ")) {
					kind = "rejected(refused)"
				} else {
					kind = "rejected(served-anyway)"
				}
			}
			via := "ServeConn"
			if cfg.ViaServe {
				via = "Serve"
			}
			shape := vpC14Shape(r.Word)
			// non-trivial: the connection saw at least one active, or ended without ever becoming active
			// for a reason other than a plain request sequence (no bytes, refusal)
			nontrivial := strings.Contains(shape, "A") || r.Hist.Kind != "requests"
			vpCase(fmt.Sprintf("%s/%s/%s", via, kind, shape), nontrivial, fmt.Sprintf("%+v|%s|%s", cfg, r.Hist.String(), vpC14WordString(r.Word)), func() string {
				return fmt.Sprintf("cfg=%+v hist=%s word=[%s]", cfg, r.Hist.String(), vpC14WordString(r.Word))
			})
			if cfg.RMU {
				vpExtra("rmu-conns", 1)
			}
		}
		if fail != "" {
			var hs []string
			for _, h := range hists {
				hs = append(hs, h.String())
			}
			var ws []string
			for i, r := range res {
				ws = append(ws, fmt.Sprintf("#%d %s: [%s]", i, r.Hist.Kind, vpC14WordString(r.Word)))
			}
			t.Fatalf("C14 violation: %s\ncfg=%+v\nhistories=%s\nwords:\n  %s", fail, cfg, strings.Join(hs, "\n  "), strings.Join(ws, "\n  "))
		}
	})
}
