package fasthttp

// C28 — Args (query arguments) behave as an ordered multimap and round-trip through
// QueryString/ParseBytes.
//
// Oracle: a slice model of (key, value, noValue) entries written from the property text
// (Add appends; Set replaces the FIRST entry with that key, appending when there is none; Del
// removes every entry with the key keeping the order of the rest), plus an independent
// application/x-www-form-urlencoded decoder (vpC28RefDecode) for the serialised form. Nothing
// here calls fasthttp code except the Args methods under test.

import (
	"bytes"
	"fmt"
	"strconv"
	"strings"
	"testing"

	"pgregory.net/rapid"
)

type vpC28Entry struct {
	k, v    string
	noValue bool
}

type vpC28Model struct {
	e []vpC28Entry
}

func (m *vpC28Model) add(k, v string, noValue bool) {
	if noValue {
		v = ""
	}
	m.e = append(m.e, vpC28Entry{k, v, noValue})
}

func (m *vpC28Model) set(k, v string, noValue bool) {
	if noValue {
		v = ""
	}
	for i := range m.e {
		if m.e[i].k == k {
			m.e[i].v = v
			m.e[i].noValue = noValue
			return
		}
	}
	m.e = append(m.e, vpC28Entry{k, v, noValue})
}

func (m *vpC28Model) del(k string) {
	out := make([]vpC28Entry, 0, len(m.e))
	for _, x := range m.e {
		if x.k != k {
			out = append(out, x)
		}
	}
	m.e = out
}

func (m *vpC28Model) count(k string) int {
	n := 0
	for _, x := range m.e {
		if x.k == k {
			n++
		}
	}
	return n
}

func (m *vpC28Model) multi(k string) []string {
	var out []string
	for _, x := range m.e {
		if x.k == k {
			out = append(out, x.v)
		}
	}
	return out
}

// withoutEmpty is the list a parser is expected to give back: entries whose key and value are
// both empty do not survive serialisation+parsing (property statement).
func (m *vpC28Model) withoutEmpty() []vpC28Entry {
	out := make([]vpC28Entry, 0, len(m.e))
	for _, x := range m.e {
		if x.k == "" && x.v == "" {
			continue
		}
		out = append(out, x)
	}
	return out
}

func vpC28Fmt(e []vpC28Entry) string {
	var sb strings.Builder
	sb.WriteByte('[')
	for i, x := range e {
		if i > 0 {
			sb.WriteByte(' ')
		}
		if x.noValue {
			fmt.Fprintf(&sb, "%q", x.k)
		} else {
			fmt.Fprintf(&sb, "%q=%q", x.k, x.v)
		}
	}
	sb.WriteByte(']')
	return sb.String()
}

// vpC28KeySpace: small, so that collisions (several entries per key) are the norm, and hostile:
// empty key, separators, escapes, invalid escapes, non-ASCII, prefixes of each other.
var vpC28KeySpace = []string{
	"a", "b", "ab", "a", "b", // weighted
	"", "a b", "a&b", "=", "%41", "A", "\xff", "+", "a=b", "a%", "%4", "%zz", "\x00", "é", "&", "a+b",
}

var vpC28ValuePool = []string{
	"", "1", "2", "x", " ", "&", "=", "+", "%", "%41", "%4", "%zz", "a b", "a&b=c", "a+b", "\xff\xfe", "é",
	"\x00", "=&=", "%2B", "%26", "%3D", "v v", "&&", "==", "#", "?", "/", ";", "a%20b",
}

func vpC28GenKey() *rapid.Generator[string] {
	return rapid.Custom(func(t *rapid.T) string {
		switch rapid.IntRange(0, 19).Draw(t, "kmode") {
		case 0:
			return string(rapid.SliceOfN(rapid.Byte(), 0, 4).Draw(t, "kbytes"))
		case 1, 2, 3, 4, 5, 6, 7, 8:
			// the hot keys: most histories hold several entries under them
			return rapid.SampledFrom([]string{"a", "b", "", "a b", "%41"}).Draw(t, "hot")
		}
		return rapid.SampledFrom(vpC28KeySpace).Draw(t, "key")
	})
}

func vpC28GenValue() *rapid.Generator[string] {
	return rapid.Custom(func(t *rapid.T) string {
		switch rapid.IntRange(0, 3).Draw(t, "vmode") {
		case 0:
			return string(rapid.SliceOfN(rapid.Byte(), 0, 12).Draw(t, "vbytes"))
		case 1:
			// bytes from the alphabet that matters to the codec
			return string(rapid.SliceOfN(rapid.SampledFrom([]byte("&=+% 4a1zZ\xff\x00#;/?-_.~")), 0, 10).Draw(t, "valpha"))
		default:
			return rapid.SampledFrom(vpC28ValuePool).Draw(t, "vpool")
		}
	})
}

// vpC28Scribble overwrites a byte slice that was handed to an Args method: Args must have copied it.
func vpC28Scribble(b []byte) {
	for i := range b {
		b[i] = '!'
	}
}

// vpC28RefDecode: independent application/x-www-form-urlencoded field decoder: '+' is a space,
// %XX (either hex case) is the byte, everything else is literal. ok=false on a malformed escape.
func vpC28RefDecode(s string) (string, bool) {
	var out []byte
	for i := 0; i < len(s); i++ {
		c := s[i]
		switch c {
		case '+':
			out = append(out, ' ')
		case '%':
			if i+2 >= len(s) {
				return "", false
			}
			v, err := strconv.ParseUint(s[i+1:i+3], 16, 8)
			if err != nil {
				return "", false
			}
			out = append(out, byte(v))
			i += 2
		default:
			out = append(out, c)
		}
	}
	return string(out), true
}

// vpC28RefParse splits a serialised query string into (key, value, noValue) entries using only
// the grammar "pairs separated by '&', key and value separated by the first '='".
func vpC28RefParse(qs string) ([]vpC28Entry, error) {
	var out []vpC28Entry
	if qs == "" {
		return out, nil
	}
	for _, part := range strings.Split(qs, "&") {
		var e vpC28Entry
		ks, vs := part, ""
		if i := strings.IndexByte(part, '='); i >= 0 {
			ks, vs = part[:i], part[i+1:]
		} else {
			e.noValue = true
		}
		var ok bool
		if e.k, ok = vpC28RefDecode(ks); !ok {
			return nil, fmt.Errorf("malformed escape in key %q", ks)
		}
		if e.v, ok = vpC28RefDecode(vs); !ok {
			return nil, fmt.Errorf("malformed escape in value %q", vs)
		}
		if e.k == "" && e.v == "" {
			continue
		}
		out = append(out, e)
	}
	return out, nil
}

func vpC28EntriesEqual(a, b []vpC28Entry) bool {
	if len(a) != len(b) {
		return false
	}
	for i := range a {
		if a[i] != b[i] {
			return false
		}
	}
	return true
}

// vpC28Snapshot reads the entries of an Args the white-box way (key, value, noValue flag).
func vpC28Snapshot(a *Args) []vpC28Entry {
	out := make([]vpC28Entry, 0, len(a.args))
	for i := range a.args {
		kv := &a.args[i]
		out = append(out, vpC28Entry{string(kv.key), string(kv.value), kv.noValue})
	}
	return out
}

// vpC28CheckGetters compares every getter with the model.
func vpC28CheckGetters(t *rapid.T, a *Args, m *vpC28Model, extraKeys []string) {
	if a.Len() != len(m.e) {
		t.Fatalf("Len() = %d, model has %d entries %s", a.Len(), len(m.e), vpC28Fmt(m.e))
	}
	i := 0
	for k, v := range a.All() {
		if i >= len(m.e) {
			t.Fatalf("All() yields more than the %d model entries %s", len(m.e), vpC28Fmt(m.e))
		}
		if string(k) != m.e[i].k || string(v) != m.e[i].v {
			t.Fatalf("All()[%d] = (%q,%q), model (%q,%q); model %s", i, k, v, m.e[i].k, m.e[i].v, vpC28Fmt(m.e))
		}
		i++
	}
	if i != len(m.e) {
		t.Fatalf("All() yields %d entries, model has %d: %s", i, len(m.e), vpC28Fmt(m.e))
	}
	j := 0
	a.VisitAll(func(k, v []byte) {
		if j < len(m.e) && (string(k) != m.e[j].k || string(v) != m.e[j].v) {
			t.Fatalf("VisitAll[%d] = (%q,%q), model (%q,%q)", j, k, v, m.e[j].k, m.e[j].v)
		}
		j++
	})
	if j != len(m.e) {
		t.Fatalf("VisitAll visited %d entries, model has %d", j, len(m.e))
	}
	seen := map[string]bool{}
	check := func(k string) {
		if seen[k] {
			return
		}
		seen[k] = true
		want := m.multi(k)
		if got := a.Has(k); got != (len(want) > 0) {
			t.Fatalf("Has(%q) = %v, model entries for key: %q; model %s", k, got, want, vpC28Fmt(m.e))
		}
		if got := a.HasBytes([]byte(k)); got != (len(want) > 0) {
			t.Fatalf("HasBytes(%q) = %v, model entries for key: %q", k, got, want)
		}
		p := a.Peek(k)
		pb := a.PeekBytes([]byte(k))
		if len(want) == 0 {
			if len(p) != 0 || len(pb) != 0 {
				t.Fatalf("Peek(%q) = %q / PeekBytes = %q for a key absent from the model %s", k, p, pb, vpC28Fmt(m.e))
			}
		} else {
			if string(p) != want[0] || string(pb) != want[0] {
				t.Fatalf("Peek(%q) = %q / PeekBytes = %q, model first value %q; model %s", k, p, pb, want[0], vpC28Fmt(m.e))
			}
		}
		for vi, got := range [][][]byte{a.PeekMulti(k), a.PeekMultiBytes([]byte(k))} {
			if len(got) != len(want) {
				t.Fatalf("PeekMulti[%d](%q) = %q, model %q; model %s", vi, k, got, want, vpC28Fmt(m.e))
			}
			for x := range got {
				if string(got[x]) != want[x] {
					t.Fatalf("PeekMulti[%d](%q) = %q, model %q; model %s", vi, k, got, want, vpC28Fmt(m.e))
				}
			}
		}
	}
	for _, x := range m.e {
		check(x.k)
	}
	for _, k := range vpC28KeySpace {
		check(k)
	}
	for _, k := range extraKeys {
		check(k)
	}
}

// vpC28CheckRoundTrip: ParseBytes(QueryString()) (and the independent decoder) give back the
// model's ordered (key, value, has '=') list minus the entries with empty key and empty value.
func vpC28CheckRoundTrip(t *rapid.T, a *Args, m *vpC28Model, dst *Args) {
	qs := string(a.QueryString())
	if s := a.String(); s != qs {
		t.Fatalf("String() = %q differs from QueryString() = %q", s, qs)
	}
	if ab := string(a.AppendBytes([]byte("pfx"))); ab != "pfx"+qs {
		t.Fatalf("AppendBytes(\"pfx\") = %q, QueryString() = %q", ab, qs)
	}
	want := m.withoutEmpty()
	// 1. fasthttp's own parser, into an Args that already holds other data (slot reuse)
	dst.ParseBytes([]byte(qs))
	got := vpC28Snapshot(dst)
	if !vpC28EntriesEqual(got, want) {
		t.Fatalf("ParseBytes(QueryString()) mismatch\n model  %s\n wire   %q\n parsed %s", vpC28Fmt(want), qs, vpC28Fmt(got))
	}
	// public-API view of the parsed copy
	i := 0
	for k, v := range dst.All() {
		if i < len(want) && (string(k) != want[i].k || string(v) != want[i].v) {
			t.Fatalf("parsed All()[%d] = (%q,%q), model (%q,%q)", i, k, v, want[i].k, want[i].v)
		}
		i++
	}
	if i != len(want) {
		t.Fatalf("parsed copy has %d entries, expected %d", i, len(want))
	}
	// has-'=' flag through the public API: serialising the parsed copy is a fixpoint
	if qs2 := string(dst.QueryString()); len(want) == len(m.e) && qs2 != qs {
		t.Fatalf("QueryString() of the parsed copy %q differs from the original %q", qs2, qs)
	}
	// 2. independent decoder
	ref, err := vpC28RefParse(qs)
	if err != nil {
		t.Fatalf("QueryString() %q is not valid x-www-form-urlencoded: %v (model %s)", qs, err, vpC28Fmt(m.e))
	}
	if !vpC28EntriesEqual(ref, want) {
		t.Fatalf("independent decoding of QueryString() mismatch\n model   %s\n wire    %q\n decoded %s", vpC28Fmt(want), qs, vpC28Fmt(ref))
	}
	// Parse(string) is the same parser
	dst.Parse(qs)
	if got := vpC28Snapshot(dst); !vpC28EntriesEqual(got, want) {
		t.Fatalf("Parse(String()) mismatch\n model  %s\n wire   %q\n parsed %s", vpC28Fmt(want), qs, vpC28Fmt(got))
	}
}

func TestVP_C28_StateMachine(t *testing.T) {
	rapid.Check(t, func(t *rapid.T) {
		a := &Args{}
		if rapid.Bool().Draw(t, "pooled") {
			// start from a recycled object with stale slots behind len (what AcquireArgs hands out)
			a.Parse("stale1=old&stale2&stale3=older&=x&stale1=dup")
			a.Reset()
		}
		scratch := &Args{}
		scratch.Parse("zz=1&yy&xx=%20")
		m := &vpC28Model{}
		var ops []string
		var extraKeys []string
		nontrivial := false
		nDelMulti, nSetMulti := 0, 0

		note := func(format string, args ...any) { ops = append(ops, fmt.Sprintf(format, args...)) }
		key := func(t *rapid.T) string {
			k := vpC28GenKey().Draw(t, "k")
			extraKeys = append(extraKeys, k)
			return k
		}

		t.Repeat(map[string]func(*rapid.T){
			"Add": func(t *rapid.T) {
				k, v := key(t), vpC28GenValue().Draw(t, "v")
				variant := rapid.IntRange(0, 3).Draw(t, "variant")
				note("Add%d(%q,%q)", variant, k, v)
				kb, vb := []byte(k), []byte(v)
				switch variant {
				case 0:
					a.Add(k, v)
				case 1:
					a.AddBytesK(kb, v)
				case 2:
					a.AddBytesV(k, vb)
				default:
					a.AddBytesKV(kb, vb)
				}
				vpC28Scribble(kb)
				vpC28Scribble(vb)
				m.add(k, v, false)
			},
			"AddNoValue": func(t *rapid.T) {
				k := key(t)
				variant := rapid.IntRange(0, 1).Draw(t, "variant")
				note("AddNoValue%d(%q)", variant, k)
				if variant == 0 {
					a.AddNoValue(k)
				} else {
					kb := []byte(k)
					a.AddBytesKNoValue(kb)
					vpC28Scribble(kb)
				}
				m.add(k, "", true)
			},
			"Set": func(t *rapid.T) {
				k, v := key(t), vpC28GenValue().Draw(t, "v")
				variant := rapid.IntRange(0, 3).Draw(t, "variant")
				note("Set%d(%q,%q)", variant, k, v)
				if m.count(k) >= 2 {
					nontrivial = true
					nSetMulti++
				}
				kb, vb := []byte(k), []byte(v)
				switch variant {
				case 0:
					a.Set(k, v)
				case 1:
					a.SetBytesK(kb, v)
				case 2:
					a.SetBytesV(k, vb)
				default:
					a.SetBytesKV(kb, vb)
				}
				vpC28Scribble(kb)
				vpC28Scribble(vb)
				m.set(k, v, false)
			},
			"SetNoValue": func(t *rapid.T) {
				k := key(t)
				variant := rapid.IntRange(0, 1).Draw(t, "variant")
				note("SetNoValue%d(%q)", variant, k)
				if m.count(k) >= 2 {
					nontrivial = true
					nSetMulti++
				}
				if variant == 0 {
					a.SetNoValue(k)
				} else {
					kb := []byte(k)
					a.SetBytesKNoValue(kb)
					vpC28Scribble(kb)
				}
				m.set(k, "", true)
			},
			"SetUint": func(t *rapid.T) {
				k := key(t)
				n := rapid.IntRange(0, 1<<40).Draw(t, "n")
				variant := rapid.IntRange(0, 1).Draw(t, "variant")
				note("SetUint%d(%q,%d)", variant, k, n)
				if m.count(k) >= 2 {
					nontrivial = true
					nSetMulti++
				}
				if variant == 0 {
					a.SetUint(k, n)
				} else {
					kb := []byte(k)
					a.SetUintBytes(kb, n)
					vpC28Scribble(kb)
				}
				m.set(k, strconv.Itoa(n), false)
				if got, err := a.GetUint(k); err != nil || got != n {
					t.Fatalf("GetUint(%q) = %d, %v after SetUint(%d)", k, got, err, n)
				}
			},
			"Del": func(t *rapid.T) {
				var k string
				// prefer keys that exist (by construction, not by filtering)
				if len(m.e) > 0 && rapid.IntRange(0, 3).Draw(t, "existing") > 0 {
					k = m.e[rapid.IntRange(0, len(m.e)-1).Draw(t, "idx")].k
					extraKeys = append(extraKeys, k)
				} else {
					k = key(t)
				}
				variant := rapid.IntRange(0, 1).Draw(t, "variant")
				note("Del%d(%q)", variant, k)
				if m.count(k) >= 2 {
					nontrivial = true
					nDelMulti++
				}
				if variant == 0 {
					a.Del(k)
				} else {
					kb := []byte(k)
					a.DelBytes(kb)
					vpC28Scribble(kb)
				}
				m.del(k)
			},
			"RoundTrip": func(t *rapid.T) {
				note("RoundTrip")
				vpC28CheckRoundTrip(t, a, m, scratch)
			},
			"Reparse": func(t *rapid.T) {
				// continue the history on an Args filled by the parser from our own serialisation
				note("Reparse")
				qs := append([]byte(nil), a.QueryString()...)
				if rapid.Bool().Draw(t, "fresh") {
					a = &Args{}
				}
				a.ParseBytes(qs)
				vpC28Scribble(qs)
				m.e = m.withoutEmpty()
			},
			"CopyTo": func(t *rapid.T) {
				// continue the history on a copy made into an Args that held something else
				note("CopyTo")
				dst := &Args{}
				if rapid.Bool().Draw(t, "dirty") {
					dst.Parse("q=1&w&e=3&r=4&q=5&t&y=&u=8")
				}
				a.CopyTo(dst)
				// the source must be unaffected and independent of the copy
				vpC28CheckGetters(t, a, m, extraKeys)
				a.Reset()
				a.Add("junk", "junk")
				a = dst
			},
			"": func(t *rapid.T) {
				vpC28CheckGetters(t, a, m, extraKeys)
				if len(extraKeys) > 8 {
					extraKeys = extraKeys[len(extraKeys)-8:]
				}
			},
		})

		// terminal check
		vpC28CheckRoundTrip(t, a, m, scratch)

		class := "seq/plain"
		switch {
		case nDelMulti > 0 && nSetMulti > 0:
			class = "seq/del+set-on-multi"
		case nDelMulti > 0:
			class = "seq/del-on-multi"
		case nSetMulti > 0:
			class = "seq/set-on-multi"
		}
		k := strings.Join(ops, ";")
		vpCase(class, nontrivial, k, func() string { return k })
		hasEmpty := len(m.withoutEmpty()) != len(m.e)
		if hasEmpty {
			vpExtra("final-state-has-empty-key-empty-value-entry", 1)
		}
		for _, x := range m.e {
			if x.noValue {
				vpExtra("final-state-has-novalue-entry", 1)
				break
			}
		}
		vpExtra("final-entries-total", int64(len(m.e)))
	})
}

// Any (key, value, noValue) list — here produced by parsing generated wire text, which reaches
// states with many entries at once — round-trips. Wire text is built from the separators and
// escape fragments that matter to the codec.
func TestVP_C28_WireRoundTrip(t *testing.T) {
	kfrag := []string{"a", "b", "a", "b", "", "%41", "%61", "+", "%20", "%", "%4", "%zz", "\xff", "%26", "%3D", "%3d", "é", "%00", " "}
	vfrag := []string{"", "1", "x", "=", "+", "%", "%41", "%4", "%zz", "%26", "%3D", "%2B", "%25", "%20", " ", "\xff", "é", "==", "%00", "%3d", "a"}
	rapid.Check(t, func(t *rapid.T) {
		var sb strings.Builder
		n := rapid.IntRange(0, 10).Draw(t, "n")
		for i := 0; i < n; i++ {
			if i > 0 {
				sb.WriteByte('&')
			}
			switch rapid.IntRange(0, 9).Draw(t, "shape") {
			case 0: // raw bytes (may contain further separators)
				sb.Write(rapid.SliceOfN(rapid.Byte(), 0, 6).Draw(t, "bytes"))
				continue
			case 1: // empty pair: "&&"
				continue
			}
			for j, kn := 0, rapid.IntRange(0, 2).Draw(t, "kn"); j < kn; j++ {
				sb.WriteString(rapid.SampledFrom(kfrag).Draw(t, "kfrag"))
			}
			if rapid.IntRange(0, 3).Draw(t, "hasEq") > 0 {
				sb.WriteByte('=')
				for j, vn := 0, rapid.IntRange(0, 3).Draw(t, "vn"); j < vn; j++ {
					sb.WriteString(rapid.SampledFrom(vfrag).Draw(t, "vfrag"))
				}
			}
		}
		wire := sb.String()
		a := &Args{}
		if rapid.Bool().Draw(t, "dirty") {
			a.Parse("q=1&w&e=3&r=4&q=5&t&y=&u=8")
		}
		a.Parse(wire)
		// the parsed state as a model (white-box snapshot), then the round trip applies to it
		m := &vpC28Model{e: vpC28Snapshot(a)}
		for _, x := range m.e {
			if x.k == "" && x.v == "" {
				t.Fatalf("Parse(%q) kept an entry with empty key and empty value: %s", wire, vpC28Fmt(m.e))
			}
			if x.noValue && x.v != "" {
				t.Fatalf("Parse(%q) produced a no-value entry carrying value %q", wire, x.v)
			}
		}
		vpC28CheckGetters(t, a, m, nil)
		scratch := &Args{}
		vpC28CheckRoundTrip(t, a, m, scratch)
		multi := false
		for _, x := range m.e {
			if m.count(x.k) >= 2 {
				multi = true
			}
		}
		class := "wire/single-valued"
		if multi {
			class = "wire/multi-valued"
		}
		if len(m.e) == 0 {
			class = "wire/empty"
		}
		vpCase(class, len(m.e) >= 2 && bytes.ContainsAny([]byte(wire), "%+&="), wire, func() string { return fmt.Sprintf("%q -> %s", wire, vpC28Fmt(m.e)) })
	})
}

// Native fuzz target (thorough tier): arbitrary bytes -> Parse -> the resulting entry list must
// round-trip (it is a state reachable by Add/AddNoValue, so the property applies to it).
func FuzzVP_C28_ParseRoundTrip(f *testing.F) {
	for _, s := range []string{"", "a=1&b=2", "a&b&a=3", "=&&=x&%41=%zz&+=%2", "a=%", "%=%&%4=%4", "\xff=\x00&a=b=c", "a==&=&&", "k=v&k=v&k"} {
		f.Add([]byte(s))
	}
	f.Fuzz(func(t *testing.T, wire []byte) {
		a := &Args{}
		a.ParseBytes(wire)
		want := vpC28Snapshot(a)
		for _, x := range want {
			if x.k == "" && x.v == "" {
				t.Fatalf("ParseBytes(%q) kept an empty/empty entry", wire)
			}
		}
		qs := append([]byte(nil), a.QueryString()...)
		b := &Args{}
		b.ParseBytes(qs)
		got := vpC28Snapshot(b)
		if !vpC28EntriesEqual(got, want) {
			t.Fatalf("round trip mismatch for wire %q\n first  %s\n qs     %q\n second %s", wire, vpC28Fmt(want), qs, vpC28Fmt(got))
		}
		ref, err := vpC28RefParse(string(qs))
		if err != nil || !vpC28EntriesEqual(ref, want) {
			t.Fatalf("independent decoding mismatch for wire %q: qs %q err %v\n want %s\n got  %s", wire, qs, err, vpC28Fmt(want), vpC28Fmt(ref))
		}
	})
}
