package fasthttp

// C08 — native (coverage-guided) fuzz targets for the thorough tier. Each target applies the same
// oracles as the rapid checks (vpC08Check / vpC08ValCheck) to the bytes chosen by the fuzz engine.
// Seeds: the literal seeds of the repository's own fuzz targets, any corpus files under
// $VP_PKGDIR/testdata/fuzz/<repo fuzz target>/, and products of the grammars (rapid .Example).

import (
	"os"
	"path/filepath"
	"strconv"
	"strings"
	"testing"

	"pgregory.net/rapid"
)

// vpC08RepoCorpus returns the []byte / string values stored in the repo's corpus files for the
// given fuzz targets (go test fuzz v1 format), if the directory exists.
func vpC08RepoCorpus(targets ...string) [][]byte {
	var out [][]byte
	dir := os.Getenv("VP_PKGDIR")
	if dir == "" {
		return nil
	}
	for _, tg := range targets {
		files, _ := filepath.Glob(filepath.Join(dir, "testdata", "fuzz", tg, "*"))
		for _, f := range files {
			raw, err := os.ReadFile(f)
			if err != nil {
				continue
			}
			for _, line := range strings.Split(string(raw), "\n") {
				line = strings.TrimSpace(line)
				for _, pre := range []string{"[]byte(", "string("} {
					if strings.HasPrefix(line, pre) && strings.HasSuffix(line, ")") {
						if s, err := strconv.Unquote(line[len(pre) : len(line)-1]); err == nil {
							out = append(out, []byte(s))
						}
					}
				}
			}
		}
	}
	return out
}

func vpC08GrammarSeeds(n int, gen func(t *rapid.T) []byte) [][]byte {
	g := rapid.Custom(gen)
	out := make([][]byte, 0, n)
	for i := 1; i <= n; i++ {
		out = append(out, g.Example(i))
	}
	return out
}

func vpC08FuzzPlan(split uint8) (plan, plan2 []int) {
	switch {
	case split == 0:
		return nil, []int{1}
	case split == 1:
		return []int{1}, nil
	case split&1 == 0:
		return []int{int(split)}, []int{3, 1, 50}
	default:
		return []int{int(split), 1, 2}, []int{int(split)/2 + 1}
	}
}

func vpC08FuzzStream(t *testing.T, kind int, data []byte, bufSize uint16, maxBody uint32, split uint8) {
	if len(data) > 8192 {
		return
	}
	vpC08Probe()
	c := &vpC08Case{kind: kind, stream: append(append([]byte(nil), data...), vpC08Sentinel...)}
	c.bufSize = 16 + int(bufSize)%4081
	if bufSize&0x8000 != 0 {
		c.bufSize = 4096
	}
	c.maxBody = 1 + int(maxBody%65536)
	c.plan, c.plan2 = vpC08FuzzPlan(split)
	c.skipBody = kind == vpC08RespFull && split&0x40 != 0
	if complaint, _, _ := vpC08Check(c); complaint != "" {
		t.Fatalf("%s\ncase: %s", complaint, c.String())
	}
}

var vpC08ReqSeeds = []string{
	"POST /a HTTP/1.1\r\nHost: a.com\r\nTransfer-Encoding: chunked\r\nContent-Type: aa\r\n\r\n6\r\nfoobar\r\n3\r\nbaz\r\n0\r\nfoobar\r\n\r\n",
	"POST /a HTTP/1.1\r\nHost: a.com\r\nWithTabs: \t v1 \t\r\nWithTabs-Start: \t \t v1 \r\nWithTabs-End: v1 \t \t\t\t\r\nWithTabs-Multi-Line: \t v1 \t;\r\n \t v2 \t;\r\n\t v3\r\n\r\n",
	"GET / HTTP/1.1\r\nHost: a\r\n\r\n",
	"GET / HTTP/1.1\nHost: a\n\n\r\n\r\n",
	"POST /x HTTP/1.1\r\nHost: a\r\nContent-Length: 5\r\n\r\nhelloGET /next HTTP/1.1\r\nHost: a\r\n\r\n",
	"POST /x HTTP/1.1\r\nHost: a\r\nContent-Length: 5\r\nTransfer-Encoding: chunked\r\n\r\n5\r\nhello\r\n0\r\n\r\n",
	"POST /x HTTP/1.1\r\nHost: a\r\nExpect: 100-continue\r\nContent-Length: 3\r\n\r\nabc",
	"POST /x HTTP/1.1\r\nHost: a\r\nTransfer-Encoding: chunked\r\nTrailer: X-T\r\n\r\n3;ext=1\r\nabc\r\n0\r\nX-T: v\r\n\r\n",
	"POST /mp HTTP/1.1\r\nHost: h\r\nContent-Type: multipart/form-data; boundary=xyz\r\nContent-Length: 47\r\n\r\n--xyz--\r\nGET /smuggled HTTP/1.1\r\nHost: evil\r\n\r\n",
	"POST /mp HTTP/1.1\r\nHost: h\r\nContent-Type: multipart/form-data; boundary=xyz\r\nContent-Length: 62\r\n\r\n--xyz\r\nContent-Disposition: form-data; name=\"a\"\r\n\r\nv\r\n--xyz--\r\n",
	"\r\n\r\nOPTIONS * HTTP/1.0\r\n\r\n",
}

var vpC08RespSeeds = []string{
	"HTTP/1.1 200 OK\r\nContent-Type: aa\r\nContent-Length: 10\r\n\r\n9876543210",
	" 0\nTrAnsfer-EnCoding:0\n\n0\r\n1:0\n        00\n 000\n\n",
	" 0\n0:\n 0\n :\n",
	"HTTP/1.1 100 Continue\r\n\r\nHTTP/1.1 200 OK\r\nTransfer-Encoding: chunked\r\n\r\n3\r\nabc\r\n0\r\n\r\n",
	"HTTP/1.1 204 No Content\r\nContent-Length: 5\r\n\r\nhello",
	"HTTP/1.0 200 OK\r\n\r\nuntil close",
	"HTTP/1.1 200 OK\r\nTransfer-Encoding: chunked\r\nTrailer: X-T\r\n\r\n1\r\na\r\n0\r\nX-T: v\r\n\r\nHTTP/1.1 200 OK\r\nContent-Length: 0\r\n\r\n",
	"HTTP/1.1 304 Not Modified\r\nSet-Cookie: a=b\r\nConnection: close\r\n\r\n",
}

func FuzzVP_C08_Request(f *testing.F) {
	seeds := vpC08RepoCorpus("FuzzRequestReadLimitBody", "FuzzRequestReadLimitBodyAllocations")
	for _, s := range vpC08ReqSeeds {
		seeds = append(seeds, []byte(s))
	}
	seeds = append(seeds, vpC08GrammarSeeds(60, func(t *rapid.T) []byte {
		c, _ := vpC08GenCase(t, vpC08ReqFull)
		return c.stream[:len(c.stream)-len(vpC08Sentinel)]
	})...)
	for i, s := range seeds {
		f.Add(s, uint16(0x8000), uint32(1<<15), uint8(i%4))
	}
	f.Add([]byte(vpC08ReqSeeds[0]), uint16(40), uint32(3), uint8(7))
	f.Fuzz(func(t *testing.T, data []byte, bufSize uint16, maxBody uint32, split uint8) {
		vpC08FuzzStream(t, vpC08ReqFull, data, bufSize, maxBody, split)
	})
}

func FuzzVP_C08_Response(f *testing.F) {
	seeds := vpC08RepoCorpus("FuzzResponseReadLimitBody")
	for _, s := range vpC08RespSeeds {
		seeds = append(seeds, []byte(s))
	}
	seeds = append(seeds, vpC08GrammarSeeds(60, func(t *rapid.T) []byte {
		c, _ := vpC08GenCase(t, vpC08RespFull)
		return c.stream[:len(c.stream)-len(vpC08Sentinel)]
	})...)
	for i, s := range seeds {
		f.Add(s, uint16(0x8000), uint32(1<<15), uint8(i%4))
	}
	f.Add([]byte(vpC08RespSeeds[0]), uint16(40), uint32(3), uint8(0x47))
	f.Fuzz(func(t *testing.T, data []byte, bufSize uint16, maxBody uint32, split uint8) {
		vpC08FuzzStream(t, vpC08RespFull, data, bufSize, maxBody, split)
	})
}

// FuzzVP_C08_Heads: RequestHeader.Read, ResponseHeader.Read and both ReadTrailer (selected by sel).
func FuzzVP_C08_Heads(f *testing.F) {
	kinds := []int{vpC08ReqHead, vpC08RespHead, vpC08ReqTrailer, vpC08RespTrailer}
	for _, s := range vpC08RepoCorpus("FuzzHeaderScanner") {
		for k := range kinds {
			f.Add(s, uint8(k), uint16(0x8000), uint8(0))
		}
	}
	for i, s := range vpC08ReqSeeds {
		f.Add([]byte(s), uint8(0), uint16(0x8000), uint8(i%4))
	}
	for i, s := range vpC08RespSeeds {
		f.Add([]byte(s), uint8(1), uint16(0x8000), uint8(i%4))
	}
	for _, s := range []string{"\r\n", "X-T: v\r\n\r\n", "X-T: v\n\n", "Host: example.com\r\nUser-Agent: Go-http-client/1.1\r\nAccept-Encoding: gzip, deflate\r\n\r\n", " 3 :\r\n\r\n", "Content-Length: 3\r\n\r\n", "X: a\r\n b\r\n\r\n"} {
		f.Add([]byte(s), uint8(2), uint16(0x8000), uint8(0))
		f.Add([]byte(s), uint8(3), uint16(64), uint8(1))
	}
	for k, kind := range kinds {
		kind := kind
		for _, s := range vpC08GrammarSeeds(25, func(t *rapid.T) []byte {
			c, _ := vpC08GenCase(t, kind)
			return c.stream[:len(c.stream)-len(vpC08Sentinel)]
		}) {
			f.Add(s, uint8(k), uint16(0x8000), uint8(0))
		}
	}
	f.Fuzz(func(t *testing.T, data []byte, sel uint8, bufSize uint16, split uint8) {
		vpC08FuzzStream(t, kinds[int(sel)%len(kinds)], data, bufSize, 1, split)
	})
}

func vpC08FuzzVal(f *testing.F, tgs []*vpC08ValTarget, literal []string, repo ...string) {
	var seeds [][]byte
	seeds = append(seeds, vpC08RepoCorpus(repo...)...)
	for _, s := range literal {
		seeds = append(seeds, []byte(s))
	}
	for k, tg := range tgs {
		tg := tg
		for _, s := range vpC08GrammarSeeds(30, func(t *rapid.T) []byte {
			in, _, _ := tg.gen(t)
			return in
		}) {
			f.Add(s, uint8(k), uint32(1<<20), uint8('0'))
		}
	}
	for i, s := range seeds {
		for k := range tgs {
			f.Add(s, uint8(k), uint32(10+i), uint8(';'))
		}
	}
	f.Fuzz(func(t *testing.T, data []byte, sel uint8, aux uint32, fill uint8) {
		if len(data) > 8192 {
			return
		}
		tg := tgs[int(sel)%len(tgs)]
		a := int(aux % (1 << 24))
		if tg == vpC08TgMultipart && a>>2 < 1 {
			a |= 4
		}
		if complaint, _ := vpC08ValCheck(tg, data, a, fill, fill^0x5a); complaint != "" {
			t.Fatalf("%s\ninput=%q aux=%d", complaint, data, a)
		}
	})
}

func FuzzVP_C08_Cookie(f *testing.F) {
	vpC08FuzzVal(f, []*vpC08ValTarget{vpC08TgCookie}, []string{"xxx=yyy", "xxx=yyy; expires=Tue, 10 Nov 2009 23:00:00 GMT; domain=foobar.com; path=/a/b", " \n\t\""}, "FuzzCookieParse")
}

func FuzzVP_C08_URI(f *testing.F) {
	vpC08FuzzVal(f, []*vpC08ValTarget{vpC08TgURI}, []string{"http://foobar.com/aaa/bb?cc#dd", "http://google.com?github.com", "http://google.com#@github.com",
		"http://[%255%2c%2c%2c%2c%4c%2c2c%2c%2c]", "http://aa0aaa%80000000000", "//foobar.com/aaa/bb?cc", "/aaa/bb?cc", "xx?yy=abc"}, "FuzzURIParse", "FuzzURIUpdateBytes")
}

func FuzzVP_C08_Args(f *testing.F) {
	vpC08FuzzVal(f, []*vpC08ValTarget{vpC08TgArgs}, []string{"a=1&b=2", "a=%zz&&=&b", "q=a+b%20c"})
}

func FuzzVP_C08_Multipart(f *testing.F) {
	vpC08FuzzVal(f, []*vpC08ValTarget{vpC08TgMultipart}, []string{"--xyz\r\nContent-Disposition: form-data; name=\"a\"\r\n\r\nv\r\n--xyz--\r\n",
		"--xyz\r\nContent-Disposition: form-data; name=\"f\"; filename=\"x.txt\"\r\nContent-Type: text/plain\r\n\r\ncontent\r\n--xyz--\r\n", "--xyz--\r\n"})
}

// FuzzVP_C08_Scalars: ParseByteRange, VisitHeaderParams, ParseHTTPDate, ParseIPv4, ParseUint, ParseUfloat.
func FuzzVP_C08_Scalars(f *testing.F) {
	vpC08FuzzVal(f, []*vpC08ValTarget{vpC08TgRange, vpC08TgParams, vpC08TgDate, vpC08TgIPv4, vpC08TgUint, vpC08TgUfloat},
		[]string{"bytes=0-9", "bytes=-5", "bytes=5-", `application/json; v=1; foo=bar; q=0.938; param=param; param="big fox"; q=0.43`, `*/*`, `\\`, `text/plain; foo="\\\"\'\\''\'"`,
			"Mon, 02 Jan 2006 15:04:05 GMT", "1.2.3.4", "255.255.255.256", "123", "1.5e3", "9223372036854775808"}, "FuzzVisitHeaderParams")
}
