package fasthttp

// C11 — no request observes state left over from an earlier request.
// Histories of requests over several connections of one Server; every handler invocation first
// snapshots everything observable about the request and the (still untouched) response, then
// mutates all of it. Oracle: snapshot == the request the harness sent (independently known) and a
// response identical to the one the very first invocation on this server observed; every well-formed
// request sent on a connection the server left open reaches the handler.

import (
	"bufio"
	"bytes"
	"fmt"
	"io"
	"net"
	"net/http"
	"sort"
	"strings"
	"sync"
	"testing"
	"time"

	"pgregory.net/rapid"
)

type vpC11Item struct {
	Kind    string // plain | form | multipart | malformed | expect-reject | timeout | hijack | stream | close
	Method  string
	ID      int
	HasBody bool
	Chunked bool // body sent with chunked transfer coding (two chunks)
	QShape  int  // shape of the query string (number of arguments, keys without '=', empty values): see vpC11Query
	FShape  int  // shape of the form body (kind "form")
	CShape  int  // shape of the Cookie header
}

// vpC11Query: the query string of request id in shape sh, and the arguments a handler must see (key=value; a key
// without '=' has the empty value). Requests of different shapes reuse argument slots in different ways: more or
// fewer arguments than the request before, a valueless key where a valued one was.
func vpC11Query(id string, sh int) (string, []string) {
	switch sh {
	case 1:
		return "a=" + id, []string{"a=" + id}
	case 2:
		return "a=" + id + "&flag" + id, []string{"a=" + id, "flag" + id + "="}
	case 3:
		return "flag" + id, []string{"flag" + id + "="}
	case 4:
		return "a=" + id + "&b=x&c=y" + id + "&d", []string{"a=" + id, "b=x", "c=y" + id, "d="}
	case 5:
		return "", nil
	case 6:
		return "a=&b" + id + "=", []string{"a=", "b" + id + "="}
	case 7:
		return "a=" + id + "&b=x&zz=long-value-" + id + "&q", []string{"a=" + id, "b=x", "zz=long-value-" + id, "q="}
	}
	return "a=" + id + "&b=x", []string{"a=" + id, "b=x"}
}

func vpC11Form(id string, sh int) (string, []string) {
	switch sh {
	case 1:
		return "f" + id + "=w" + id + "&g", []string{"f" + id + "=w" + id, "g="}
	case 2:
		return "g" + id, []string{"g" + id + "="}
	case 3:
		return "f" + id + "=w" + id + "&g=1&h=2&i", []string{"f" + id + "=w" + id, "g=1", "h=2", "i="}
	}
	return "f" + id + "=w" + id + "&g=1", []string{"f" + id + "=w" + id, "g=1"}
}

func vpC11Cookies(id string, sh int) (string, []string) {
	switch sh {
	case 1:
		return "c" + id + "=v" + id + "; d=2; e" + id + "=3", []string{"c" + id + "=v" + id, "d=2", "e" + id + "=3"}
	case 2:
		return "c" + id + "=", []string{"c" + id + "="}
	}
	return "c" + id + "=v" + id, []string{"c" + id + "=v" + id}
}

type vpC11Snap struct {
	ID                                          string
	Method, URI, Path, Host, UA, CType, Body    string
	CL                                          int
	Query, Post, Hdrs, Cookies, UserVals, MPart []string
	ConnReqNum                                  uint64
	RespStatus                                  int
	RespHdr, RespBody                           string
	RespCookies                                 int
}

func vpC11Sorted(s []string) []string { sort.Strings(s); return s }

func vpC11StripDate(h string) string {
	var out []string
	for _, l := range strings.Split(h, "\r\n") {
		if strings.HasPrefix(strings.ToLower(l), "date:") {
			continue
		}
		out = append(out, l)
	}
	return strings.Join(out, "\r\n")
}

func vpC11Request(it vpC11Item) (raw string, exp vpC11Snap) {
	id := fmt.Sprint(it.ID)
	exp.ID = id
	exp.Method = it.Method
	qs, qargs := vpC11Query(id, it.QShape)
	exp.URI = "/p" + id
	if qs != "" {
		exp.URI += "?" + qs
	}
	exp.Path = "/p" + id
	exp.Host = "h" + id + ".example"
	exp.UA = "ua" + id
	exp.Query = qargs
	exp.Hdrs = []string{"X-Id=" + id, "X-Extra-" + id + "=v" + id}
	cks, ckexp := vpC11Cookies(id, it.CShape)
	exp.Cookies = ckexp
	var b strings.Builder
	fmt.Fprintf(&b, "%s %s HTTP/1.1\r\nHost: %s\r\nUser-Agent: %s\r\nX-Id: %s\r\nX-Extra-%s: v%s\r\nCookie: %s\r\n", it.Method, exp.URI, exp.Host, exp.UA, id, id, id, cks)
	body := ""
	switch it.Kind {
	case "form":
		body, exp.Post = vpC11Form(id, it.FShape)
		exp.CType = "application/x-www-form-urlencoded"
	case "multipart":
		bd := "XBOUNDX" + id
		body = "--" + bd + "\r\nContent-Disposition: form-data; name=\"m" + id + "\"\r\n\r\nval" + id + "\r\n--" + bd + "--\r\n"
		exp.CType = "multipart/form-data; boundary=" + bd
		exp.MPart = []string{"m" + id + "=val" + id}
	case "expect-reject":
		if it.HasBody {
			body = "rejected-body-" + id
			b.WriteString("Expect: 100-continue\r\nX-Reject: 1\r\n")
		} else {
			// a rejected expectation that announces an empty body: nothing to skip, the connection may stay open
			b.WriteString("Expect: 100-continue\r\nX-Reject: 1\r\nContent-Length: 0\r\n")
		}
	case "malformed":
		return "GET /p" + id + " HTTP/1.1\r\nHost: h\r\nBad Header Line Without Colon\r\n\r\n", exp
	default:
		if it.HasBody {
			body = "body" + id
			exp.CType = "text/plain"
		}
	}
	if it.Kind == "close" {
		b.WriteString("Connection: close\r\n")
	}
	if it.Kind == "trunc" {
		// chunked body cut off inside its first chunk (the client disappears): leaves a body stream mid-chunk
		b.WriteString("Content-Type: text/plain\r\nTransfer-Encoding: chunked\r\n\r\n1c\r\npartial-" + id)
		return b.String(), exp
	}
	if body != "" {
		if exp.CType != "" {
			fmt.Fprintf(&b, "Content-Type: %s\r\n", exp.CType)
		}
		if it.Chunked {
			b.WriteString("Transfer-Encoding: chunked\r\n\r\n")
			h := len(body) / 2
			fmt.Fprintf(&b, "%x\r\n%s\r\n%x\r\n%s\r\n0\r\n\r\n", h, body[:h], len(body)-h, body[h:])
			exp.Body = body
			exp.CL = -1
			return b.String(), exp
		}
		fmt.Fprintf(&b, "Content-Length: %d\r\n", len(body))
		exp.CL = len(body)
	}
	b.WriteString("\r\n")
	b.WriteString(body)
	exp.Body = body
	return b.String(), exp
}

type vpC11Run struct {
	mu       sync.Mutex
	snaps    []vpC11Snap
	hijacked sync.WaitGroup
}

func (r *vpC11Run) handler(kindOf func(id string) string, stream bool) RequestHandler {
	return func(ctx *RequestCtx) {
		var s vpC11Snap
		s.ID = string(ctx.Request.Header.Peek("X-Id"))
		s.Method = string(ctx.Method())
		s.URI = string(ctx.RequestURI())
		s.Path = string(ctx.Path())
		s.Host = string(ctx.Host())
		s.UA = string(ctx.UserAgent())
		s.CType = string(ctx.Request.Header.ContentType())
		s.CL = ctx.Request.Header.ContentLength()
		for k, v := range ctx.QueryArgs().All() {
			s.Query = append(s.Query, string(k)+"="+string(v))
		}
		kind, noRespFlag := strings.CutSuffix(kindOf(s.ID), "+noresp-flag")
		if kind == "multipart" {
			if f, err := ctx.MultipartForm(); err == nil && f != nil {
				for k, vs := range f.Value {
					for _, v := range vs {
						s.MPart = append(s.MPart, k+"="+v)
					}
				}
				if len(f.File) > 0 {
					s.MPart = append(s.MPart, fmt.Sprintf("files=%d", len(f.File)))
				}
			}
		} else {
			if stream {
				if st := ctx.RequestBodyStream(); st != nil {
					b, _ := io.ReadAll(st)
					s.Body = string(b)
				} else {
					s.Body = string(ctx.Request.Body())
				}
			} else {
				s.Body = string(ctx.Request.Body())
				for k, v := range ctx.PostArgs().All() {
					s.Post = append(s.Post, string(k)+"="+string(v))
				}
			}
		}
		for k, v := range ctx.Request.Header.All() {
			switch strings.ToLower(string(k)) {
			case "host", "user-agent", "content-type", "content-length", "cookie", "connection", "transfer-encoding":
				continue
			}
			s.Hdrs = append(s.Hdrs, string(k)+"="+string(v))
		}
		for k, v := range ctx.Request.Header.Cookies() {
			s.Cookies = append(s.Cookies, string(k)+"="+string(v))
		}
		ctx.VisitUserValuesAll(func(k, v any) { s.UserVals = append(s.UserVals, fmt.Sprint(k, "=", v)) })
		s.ConnReqNum = ctx.ConnRequestNum()
		s.RespStatus = ctx.Response.StatusCode()
		s.RespHdr = vpC11StripDate(ctx.Response.Header.String())
		s.RespBody = string(ctx.Response.Body())
		for range ctx.Response.Header.Cookies() {
			s.RespCookies++
		}
		r.mu.Lock()
		r.snaps = append(r.snaps, s)
		r.mu.Unlock()

		// ---- now mutate everything
		id := s.ID
		ctx.SetUserValue("leak-"+id, id)
		ctx.SetUserValueBytes([]byte("leakb"), id)
		ctx.SetUserValue(42, "int-key-"+id)
		ctx.Request.Header.Set("X-Leak", id)
		ctx.Request.Header.Add("X-Extra-"+id, "again")
		ctx.Request.Header.SetCookie("leak", id)
		ctx.Request.Header.SetUserAgent("leak-ua")
		ctx.Request.Header.SetContentType("leak/type")
		ctx.QueryArgs().Add("leak", id)
		if kind != "multipart" && !stream {
			ctx.PostArgs().Add("leak", id)
		}
		ctx.Request.URI().SetPath("/leak" + id)
		ctx.Request.URI().SetHash("leak")
		if !stream {
			ctx.Request.SetBodyString("leak-body-" + id)
		}
		ctx.Response.Header.Set("X-Resp-Id", id)
		ctx.Response.Header.Add("X-Resp-Multi", "1")
		ctx.Response.Header.Add("X-Resp-Multi", "2")
		var c Cookie
		c.SetKey("rc" + id)
		c.SetValue("rv")
		ctx.Response.Header.SetCookie(&c)
		ctx.Response.Header.SetServer("leak-server")
		ctx.Response.Header.SetContentType("resp/type" + id)
		ctx.SetStatusCode(201)
		ctx.SetBodyString("resp" + id)
		if noRespFlag {
			// a per-request decision that only means something together with Hijack; this request does not
			// hijack, so it is answered normally, and the flag must be gone with the request
			ctx.HijackSetNoResponse(true)
		}
		switch kind {
		case "timeout":
			ctx.TimeoutErrorWithCode("timeout-"+id, 503)
		case "hijack":
			r.hijacked.Add(1)
			ctx.Hijack(func(c net.Conn) {
				defer r.hijacked.Done()
				c.Close()
			})
		}
	}
}

func vpC11Check(got vpC11Snap, exp vpC11Snap, first *vpC11Snap, connReq uint64) string {
	eq := func(name string, a, b []string) string {
		a, b = vpC11Sorted(append([]string(nil), a...)), vpC11Sorted(append([]string(nil), b...))
		if strings.Join(a, "\x00") != strings.Join(b, "\x00") {
			return fmt.Sprintf("%s: handler saw %q, request carried %q", name, a, b)
		}
		return ""
	}
	switch {
	case got.Method != exp.Method:
		return fmt.Sprintf("method %q want %q", got.Method, exp.Method)
	case got.URI != exp.URI:
		return fmt.Sprintf("request URI %q want %q", got.URI, exp.URI)
	case got.Path != exp.Path:
		return fmt.Sprintf("path %q want %q", got.Path, exp.Path)
	case got.Host != exp.Host:
		return fmt.Sprintf("host %q want %q", got.Host, exp.Host)
	case got.UA != exp.UA:
		return fmt.Sprintf("user agent %q want %q", got.UA, exp.UA)
	case got.CType != exp.CType:
		return fmt.Sprintf("content type %q want %q", got.CType, exp.CType)
	case len(exp.MPart) == 0 && got.Body != exp.Body:
		return fmt.Sprintf("body %q want %q", got.Body, exp.Body)
	case len(got.UserVals) != 0:
		return fmt.Sprintf("user values present at handler entry: %q", got.UserVals)
	case got.ConnReqNum != connReq:
		return fmt.Sprintf("ConnRequestNum %d want %d", got.ConnReqNum, connReq)
	}
	if exp.Body != "" && exp.CL >= 0 && got.CL != exp.CL {
		return fmt.Sprintf("content length %d want %d", got.CL, exp.CL)
	}
	for _, m := range []string{eq("query args", got.Query, exp.Query), eq("post args", got.Post, exp.Post), eq("headers", got.Hdrs, exp.Hdrs),
		eq("cookies", got.Cookies, exp.Cookies), eq("multipart values", got.MPart, exp.MPart)} {
		if m != "" {
			return m
		}
	}
	if first != nil {
		switch {
		case got.RespStatus != first.RespStatus:
			return fmt.Sprintf("response status at handler entry %d, the first request on this server saw %d", got.RespStatus, first.RespStatus)
		case got.RespHdr != first.RespHdr:
			return fmt.Sprintf("response header at handler entry %q, the first request on this server saw %q", got.RespHdr, first.RespHdr)
		case got.RespBody != first.RespBody:
			return fmt.Sprintf("response body at handler entry %q, first saw %q", got.RespBody, first.RespBody)
		case got.RespCookies != first.RespCookies:
			return fmt.Sprintf("response cookies at handler entry %d, first saw %d", got.RespCookies, first.RespCookies)
		}
	}
	return ""
}

func TestVP_C11_Histories(t *testing.T) {
	rapid.Check(t, func(t *rapid.T) {
		rmu := rapid.Bool().Draw(t, "rmu")
		stream := rapid.Bool().Draw(t, "stream")
		n := rapid.IntRange(2, 8).Draw(t, "n")
		kinds := []string{"plain", "plain", "form", "multipart", "malformed", "expect-reject", "timeout", "hijack", "close"}
		var items []vpC11Item
		kindByID := map[string]string{}
		for i := 0; i < n; i++ {
			it := vpC11Item{Kind: rapid.SampledFrom(kinds).Draw(t, "kind"), ID: i + 1}
			it.Method = "GET"
			if rapid.Bool().Draw(t, "shaped") {
				it.QShape = rapid.IntRange(0, 7).Draw(t, "qshape")
				it.FShape = rapid.IntRange(0, 3).Draw(t, "fshape")
				it.CShape = rapid.IntRange(0, 2).Draw(t, "cshape")
			}
			it.HasBody = rapid.Bool().Draw(t, "hasbody")
			if it.Kind == "form" || it.Kind == "multipart" || it.Kind == "expect-reject" || it.HasBody {
				it.Method = "POST"
			}
			if it.Kind == "plain" && it.HasBody && rapid.Bool().Draw(t, "put") {
				it.Method = "PUT"
			}
			if stream && it.Kind == "form" {
				it.Kind = "plain" // post args are not parsed from a streamed body
			}
			if stream && rapid.IntRange(0, 5).Draw(t, "trunc") == 0 {
				it.Kind, it.Method = "trunc", "POST"
			}
			if it.Kind == "plain" && it.HasBody {
				it.Chunked = rapid.Bool().Draw(t, "chunked")
			}
			if it.Method == "GET" && (it.Kind == "plain" || it.Kind == "timeout" || it.Kind == "close") && rapid.IntRange(0, 3).Draw(t, "head") == 0 {
				it.Method = "HEAD"
			}
			items = append(items, it)
			kindByID[fmt.Sprint(it.ID)] = it.Kind
			if it.Kind != "hijack" && rapid.IntRange(0, 3).Draw(t, "norespflag") == 0 {
				kindByID[fmt.Sprint(it.ID)] += "+noresp-flag"
			}
		}
		run := &vpC11Run{}
		s := &Server{
			ReduceMemoryUsage: rmu,
			StreamRequestBody: stream,
			Logger:            vpNopLogger{},
			ExpectHandler: func(ctx *RequestCtx) int {
				if len(ctx.Request.Header.Peek("X-Reject")) > 0 {
					return StatusExpectationFailed
				}
				return StatusContinue
			},
		}
		s.Handler = run.handler(func(id string) string { return kindByID[id] }, stream)

		var w *vpWire
		var done chan struct{}
		var off int
		var connReq uint64
		special := false
		nontrivial := false
		closeConn := func() {
			if w == nil {
				return
			}
			w.FinishInput()
			select {
			case <-done:
			case <-time.After(20 * time.Second):
				t.Fatalf("ServeConn did not return after client EOF")
			}
			w = nil
		}
		var first *vpC11Snap
		seen := 0
		for idx, it := range items {
			if w == nil {
				w = vpNewWire(nil, nil, false)
				done = make(chan struct{})
				go func(w *vpWire, done chan struct{}) { s.ServeConn(w); close(done) }(w, done)
				off, connReq = 0, 0
			}
			raw, exp := vpC11Request(it)
			connReq++
			if special && it.Kind != "malformed" && it.Kind != "expect-reject" {
				nontrivial = true
			}
			w.Feed([]byte(raw))
			if it.Kind == "trunc" {
				// the client goes away mid-chunk; whatever the server does with this request, it ends the connection
				special = true
				closeConn()
				run.mu.Lock()
				seen = len(run.snaps)
				run.mu.Unlock()
				continue
			}
			// wait for one complete final response or a close
			var status int
			var respHdr http.Header
			var respBody []byte
			consumed := 0
			got := w.WaitOut(20*time.Second, func(out []byte) bool {
				src := bytes.NewReader(out[off:])
				br := bufio.NewReader(src)
				for {
					rr, err := http.ReadResponse(br, &http.Request{Method: it.Method})
					if err != nil {
						return false
					}
					body, err := io.ReadAll(rr.Body)
					if err != nil {
						return false
					}
					if rr.StatusCode < 200 {
						continue
					}
					status, respHdr, respBody = rr.StatusCode, rr.Header, body
					consumed = len(out[off:]) - src.Len() - br.Buffered()
					return true
				}
			})
			if !got {
				t.Fatalf("request #%d (%s): no complete response within 20s; output %s", idx, it.Kind, vpQuote(w.Out()[off:], 300))
			}
			state := w.WaitIdleOrClosed(20 * time.Second)
			if it.Kind != "hijack" && w.OutLen() != off+consumed {
				t.Fatalf("request #%d (%s %s): %d stray bytes follow its response on the wire: %s", idx, it.Kind, it.Method, w.OutLen()-off-consumed, vpQuote(w.Out()[off+consumed:], 200))
			}
			off = w.OutLen()
			run.mu.Lock()
			snaps := append([]vpC11Snap(nil), run.snaps...)
			run.mu.Unlock()
			dispatched := len(snaps) > seen
			switch it.Kind {
			case "malformed", "expect-reject":
				if dispatched {
					t.Fatalf("request #%d (%s) reached the handler", idx, it.Kind)
				}
			default:
				// a well-formed request on a connection the server had left open must reach the handler
				if !dispatched {
					t.Fatalf("well-formed request #%d (%s %s) on an open connection (request %d of the connection) never reached the handler; response status %d body %q\nhistory=%+v",
						idx, it.Kind, it.Method, connReq, status, respBody, items[:idx+1])
				}
				if len(snaps) != seen+1 {
					t.Fatalf("request #%d dispatched %d times", idx, len(snaps)-seen)
				}
				snap := snaps[seen]
				if msg := vpC11Check(snap, exp, first, connReq); msg != "" {
					t.Fatalf("request #%d (%s) observed foreign state: %s\nhistory=%+v\nsnapshot=%+v", idx, it.Kind, msg, items[:idx+1], snap)
				}
				if first == nil {
					f := snap
					first = &f
				}
				// the response must be this handler's own (or the timeout response), with nothing of other requests
				id := fmt.Sprint(it.ID)
				if it.Kind == "timeout" {
					if status != 503 || (it.Method != "HEAD" && string(respBody) != "timeout-"+id) {
						t.Fatalf("timeout request #%d: status %d body %q", idx, status, respBody)
					}
					if respHdr.Get("X-Resp-Id") != "" {
						t.Fatalf("timeout response #%d carries handler header X-Resp-Id=%q", idx, respHdr.Get("X-Resp-Id"))
					}
				} else {
					if status != 201 || (it.Method != "HEAD" && string(respBody) != "resp"+id) || respHdr.Get("X-Resp-Id") != id {
						t.Fatalf("response to request #%d: status %d body %q X-Resp-Id %q", idx, status, respBody, respHdr.Get("X-Resp-Id"))
					}
					if v := respHdr.Values("X-Resp-Multi"); len(v) != 2 {
						t.Fatalf("response to request #%d carries X-Resp-Multi %q (leftover header values)", idx, v)
					}
					if v := respHdr.Values("Set-Cookie"); len(v) != 1 || !strings.HasPrefix(v[0], "rc"+id+"=") {
						t.Fatalf("response to request #%d carries Set-Cookie %q", idx, v)
					}
				}
			}
			seen = len(snaps)
			if it.Kind != "plain" && it.Kind != "form" {
				special = true
			}
			if state == "closed" || it.Kind == "hijack" {
				if it.Kind == "hijack" {
					run.hijacked.Wait()
				}
				closeConn()
			} else if rapid.IntRange(0, 3).Draw(t, "newconn") == 0 {
				closeConn()
			}
		}
		closeConn()
		var ks []string
		for _, it := range items {
			ks = append(ks, it.Kind+"/"+it.Method)
		}
		vpCase(fmt.Sprintf("rmu=%v/stream=%v", rmu, stream), nontrivial, strings.Join(ks, ","), func() string { return strings.Join(ks, ",") })
	})
}
