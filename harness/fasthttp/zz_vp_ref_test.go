package fasthttp

// vpref: an independent, deliberately simple reference framer for HTTP/1.x *requests*, written from
// the text of RFC 9112 (sections 2.2, 3, 5, 6, 7), not from fasthttp. It shares no code with the
// library. It is three-valued where the RFC gives recipients latitude.
//
// For every message it finds in a byte stream it reports:
//   - where it starts, where its head ends and where the whole message ends,
//   - method / target / version and the field lines (names as sent, values OWS-trimmed, obs-fold joined),
//   - the body RFC 9112 §6.3 assigns to it,
//   - MustBeLast: the framing is one the RFC (and property C01) calls ambiguous or invalid
//     (duplicate/malformed Content-Length, Content-Length together with Transfer-Encoding,
//     Transfer-Encoding on HTTP/1.0, final transfer coding not chunked, malformed chunked body,
//     whitespace/obs-fold/bare CR tangled with a framing field) - nothing may be served after it,
//   - Unknown: the head is so broken that the RFC does not define a framing at all (no colon in a
//     field line, empty field name, continuation before the first field, no parsable request line);
//     the oracle stays silent from there on,
//   - Lenient: constructs a recipient MAY accept (bare LF line ends, empty lines before the request
//     line, obs-fold in a non-framing field). If the server accepts such a message the framing below
//     still applies; it may equally refuse it.

import (
	"bytes"
	"strings"
)

type vpRefMsg struct {
	Start, HeadEnd, End int
	Method, Target, Proto string
	Fields     [][2]string
	Body       []byte
	Framing    string // "none", "cl", "chunked"
	Complete   bool   // the whole message (head + body + trailers) is present in the stream
	HeadComplete bool
	MustBeLast bool
	Unknown    bool
	Lenient    []string
	Why        []string // reasons for MustBeLast / Unknown
	Trailers   [][2]string
	HTTP11     bool
	Expect100  bool
	ConnTokens []string
}

func (m *vpRefMsg) why(s string) { m.Why = append(m.Why, s) }
func (m *vpRefMsg) lenient(s string) {
	for _, x := range m.Lenient {
		if x == s {
			return
		}
	}
	m.Lenient = append(m.Lenient, s)
}

// vpRefLine returns the next line (without its terminator) starting at off, the offset after the
// terminator, whether the terminator was a bare LF, and ok=false if no LF is present.
func vpRefLine(b []byte, off int) (line []byte, next int, bareLF bool, ok bool) {
	i := bytes.IndexByte(b[off:], '\n')
	if i < 0 {
		return nil, off, false, false
	}
	line = b[off : off+i]
	next = off + i + 1
	if len(line) > 0 && line[len(line)-1] == '\r' {
		return line[:len(line)-1], next, false, true
	}
	return line, next, true, true
}

func vpRefIsTchar(c byte) bool {
	switch {
	case c >= '0' && c <= '9', c >= 'a' && c <= 'z', c >= 'A' && c <= 'Z':
		return true
	}
	return strings.IndexByte("!#$%&'*+-.^_`|~", c) >= 0
}

func vpRefIsToken(s string) bool {
	if s == "" {
		return false
	}
	for i := 0; i < len(s); i++ {
		if !vpRefIsTchar(s[i]) {
			return false
		}
	}
	return true
}

func vpRefTrimOWS(s string) string {
	return strings.Trim(s, " \t")
}

// vpRefParseRequest parses one request message starting at off.
func vpRefParseRequest(b []byte, off int) *vpRefMsg {
	m := &vpRefMsg{Start: off, Framing: "none"}
	pos := off
	// RFC 9112 §2.2: a server SHOULD ignore at least one empty line received prior to the request-line.
	var line []byte
	for {
		l, next, bare, ok := vpRefLine(b, pos)
		if !ok {
			return m // incomplete head
		}
		if bare {
			m.lenient("bare-LF")
		}
		pos = next
		if len(l) == 0 {
			m.lenient("leading-empty-line")
			continue
		}
		line = l
		break
	}
	// request-line = method SP request-target SP HTTP-version
	parts := strings.Split(string(line), " ")
	if len(parts) != 3 || parts[0] == "" || parts[1] == "" || !vpRefIsVersion(parts[2]) {
		m.Unknown = true
		m.why("request line is not `method SP target SP HTTP/d.d`")
		return m
	}
	if bytes.IndexByte(line, '\r') >= 0 {
		m.Unknown = true
		m.why("bare CR in request line")
		return m
	}
	m.Method, m.Target, m.Proto = parts[0], parts[1], parts[2]
	m.HTTP11 = m.Proto == "HTTP/1.1"
	// field lines
	type fl struct {
		name, value string
		folded, wsBeforeColon, bareCR bool
	}
	var fields []fl
	first := true
	for {
		l, next, bare, ok := vpRefLine(b, pos)
		if !ok {
			return m // incomplete head
		}
		if bare {
			m.lenient("bare-LF")
		}
		pos = next
		if len(l) == 0 {
			break
		}
		if l[0] == ' ' || l[0] == '\t' {
			if first {
				// §2.2: whitespace between start-line and first field: reject or consume - undefined framing
				m.Unknown = true
				m.why("whitespace-preceded line right after the request line")
				return m
			}
			// obs-fold (§5.2): reject, or replace with SP
			f := &fields[len(fields)-1]
			f.folded = true
			f.value = vpRefTrimOWS(f.value + " " + vpRefTrimOWS(string(l)))
			m.lenient("obs-fold")
			first = false
			continue
		}
		first = false
		c := bytes.IndexByte(l, ':')
		if c < 0 {
			m.Unknown = true
			m.why("field line without colon")
			return m
		}
		name := string(l[:c])
		f := fl{value: vpRefTrimOWS(string(l[c+1:]))}
		if tn := strings.TrimRight(name, " \t"); tn != name {
			f.wsBeforeColon = true // §5.1: MUST be rejected with 400
			name = tn
		}
		if name == "" {
			m.Unknown = true
			m.why("empty field name")
			return m
		}
		if bytes.IndexByte(l, '\r') >= 0 {
			f.bareCR = true
		}
		f.name = name
		fields = append(fields, f)
	}
	m.HeadEnd = pos
	m.HeadComplete = true
	var cls []string
	var tes []string
	for _, f := range fields {
		m.Fields = append(m.Fields, [2]string{f.name, f.value})
		ln := strings.ToLower(f.name)
		framing := ln == "content-length" || ln == "transfer-encoding"
		if !framing && !vpRefIsToken(f.name) {
			// a name that is not a token but *contains* a framing name after stripping junk is a classic
			// smuggling vector ("Content-Length\x0b", " Transfer-Encoding"); RFC: invalid field line.
			stripped := strings.ToLower(strings.TrimFunc(f.name, func(r rune) bool { return r <= ' ' || r >= 0x7f }))
			if stripped == "content-length" || stripped == "transfer-encoding" {
				m.MustBeLast = true
				m.why("framing field name wrapped in non-token bytes: " + f.name)
			}
		}
		if framing {
			// obs-fold on a framing field: RFC 9112 §5.2 lets a server either reject or replace the fold
			// with SP before interpreting; the unfolded value decides (it is then judged like any other).
			if f.wsBeforeColon || f.bareCR {
				m.MustBeLast = true
				m.why("framing field with whitespace before colon / bare CR")
			}
			if ln == "content-length" {
				cls = append(cls, f.value)
			} else {
				tes = append(tes, f.value)
			}
		}
		if ln == "expect" && strings.EqualFold(f.value, "100-continue") {
			m.Expect100 = true
		}
		if ln == "connection" {
			for _, tok := range strings.Split(f.value, ",") {
				if tok = strings.ToLower(vpRefTrimOWS(tok)); tok != "" {
					m.ConnTokens = append(m.ConnTokens, tok)
				}
			}
		}
	}
	// §6.3 message body length
	clVal := -1
	if len(cls) > 0 {
		if len(cls) > 1 {
			m.MustBeLast = true
			m.why("duplicate Content-Length")
		}
		v, ok := vpRefParseCL(cls[0])
		if !ok {
			m.MustBeLast = true
			m.why("malformed Content-Length " + cls[0])
		}
		for _, c := range cls[1:] {
			v2, ok2 := vpRefParseCL(c)
			if !ok2 || v2 != v {
				ok = false
			}
		}
		if ok {
			clVal = v
		}
	}
	if len(tes) > 0 {
		if !m.HTTP11 {
			m.MustBeLast = true
			m.why("Transfer-Encoding on a non-HTTP/1.1 message")
		}
		if len(cls) > 0 {
			m.MustBeLast = true
			m.why("both Content-Length and Transfer-Encoding")
		}
		// list of codings over all TE lines; final one must be chunked
		var codings []string
		for _, te := range tes {
			for _, c := range strings.Split(te, ",") {
				c = strings.ToLower(vpRefTrimOWS(c))
				if i := strings.IndexByte(c, ';'); i >= 0 {
					c = vpRefTrimOWS(c[:i])
				}
				codings = append(codings, c)
			}
		}
		if len(tes) > 1 {
			m.MustBeLast = true
			m.why("several Transfer-Encoding lines")
		}
		if len(codings) == 0 || codings[len(codings)-1] != "chunked" {
			m.MustBeLast = true
			m.why("final transfer coding is not chunked")
			// A server cannot know the length; §6.3: respond 400 and close. For the (tolerated) lone
			// identity, fall back to Content-Length / none for the body itself.
			if clVal >= 0 {
				m.Framing = "cl"
			}
		} else {
			m.Framing = "chunked"
			for _, c := range codings[:len(codings)-1] {
				if c == "chunked" {
					m.MustBeLast = true
					m.why("chunked applied more than once")
				}
			}
		}
	} else if len(cls) > 0 {
		m.Framing = "cl"
	}
	switch m.Framing {
	case "none":
		m.End = m.HeadEnd
		m.Complete = true
	case "cl":
		if clVal < 0 {
			// unparsable length: no defined end
			m.End = len(b)
			m.Complete = false
			return m
		}
		if m.HeadEnd+clVal > len(b) {
			m.Body = b[m.HeadEnd:]
			m.End = len(b)
			return m
		}
		m.Body = b[m.HeadEnd : m.HeadEnd+clVal]
		m.End = m.HeadEnd + clVal
		m.Complete = true
	case "chunked":
		body, end, trailers, status := vpRefDechunk(b, m.HeadEnd)
		m.Body = body
		m.End = end
		m.Trailers = trailers
		switch status {
		case "ok":
			m.Complete = true
		case "incomplete":
		default:
			if strings.HasPrefix(status, "undefined:") {
				m.Unknown = true
				m.why(status)
				break
			}
			m.MustBeLast = true
			m.why("malformed chunked body: " + status)
		}
	}
	return m
}

func vpRefIsVersion(s string) bool {
	// HTTP-version = "HTTP/" DIGIT "." DIGIT
	return len(s) == 8 && strings.HasPrefix(s, "HTTP/") && s[5] >= '0' && s[5] <= '9' && s[6] == '.' && s[7] >= '0' && s[7] <= '9'
}

// Content-Length = 1*DIGIT (a value that does not fit 63 bits is treated as malformed: no
// implementation can frame it).
func vpRefParseCL(s string) (int, bool) {
	if s == "" || len(s) > 18 {
		if s != "" {
			// allow leading zeros beyond 18 chars
			t := strings.TrimLeft(s, "0")
			if len(t) <= 18 && vpRefAllDigits(s) {
				s = "0" + t
			} else {
				return 0, false
			}
		} else {
			return 0, false
		}
	}
	if !vpRefAllDigits(s) {
		return 0, false
	}
	v := 0
	for i := 0; i < len(s); i++ {
		v = v*10 + int(s[i]-'0')
	}
	return v, true
}

func vpRefAllDigits(s string) bool {
	if s == "" {
		return false
	}
	for i := 0; i < len(s); i++ {
		if s[i] < '0' || s[i] > '9' {
			return false
		}
	}
	return true
}

// vpRefDechunk decodes a chunked body (RFC 9112 §7.1) strictly: CRLF only, chunk-size = 1*HEXDIG,
// chunk-ext = *( BWS ";" BWS name [ BWS "=" BWS ( token / quoted-string ) ] ), trailer section of
// field lines, final CRLF. status: "ok", "incomplete" or a description of the syntax error.
func vpRefDechunk(b []byte, off int) (body []byte, end int, trailers [][2]string, status string) {
	pos := off
	for {
		i := bytes.Index(b[pos:], []byte("\r\n"))
		if i < 0 {
			// could still be a syntax error already visible
			if st := vpRefChunkLineSyntax(b[pos:], false); st != "" {
				return body, len(b), nil, st
			}
			return body, len(b), nil, "incomplete"
		}
		line := b[pos : pos+i]
		if st := vpRefChunkLineSyntax(line, true); st != "" {
			return body, len(b), nil, st
		}
		hexEnd := 0
		for hexEnd < len(line) && vpRefIsHex(line[hexEnd]) {
			hexEnd++
		}
		hs := strings.TrimLeft(string(line[:hexEnd]), "0")
		if len(hs) > 15 {
			return body, len(b), nil, "chunk size too large"
		}
		size := 0
		for i := 0; i < len(hs); i++ {
			size = size<<4 | vpRefHexVal(hs[i])
		}
		pos += i + 2
		if size == 0 {
			break
		}
		if pos+size > len(b) {
			body = append(body, b[pos:]...)
			return body, len(b), nil, "incomplete"
		}
		body = append(body, b[pos:pos+size]...)
		pos += size
		if pos+2 > len(b) {
			if pos < len(b) && b[pos] != '\r' {
				return body, len(b), nil, "chunk data not followed by CRLF"
			}
			return body, len(b), nil, "incomplete"
		}
		if b[pos] != '\r' || b[pos+1] != '\n' {
			return body, len(b), nil, "chunk data not followed by CRLF"
		}
		pos += 2
	}
	// trailer section: field lines up to an empty line. As for the head, a recipient MAY accept a bare
	// LF as line terminator (RFC 9112 §2.2), so that is not treated as a framing error here.
	for {
		line, next, _, ok := vpRefLine(b, pos)
		if !ok {
			return body, len(b), nil, "incomplete"
		}
		pos = next
		if len(line) == 0 {
			return body, pos, trailers, "ok"
		}
		if line[0] == ' ' || line[0] == '\t' {
			if len(trailers) == 0 {
				return body, len(b), nil, "malformed trailer field line"
			}
			continue // obs-fold of a trailer value
		}
		// judged like a field line of the head: a line without colon or with an empty name leaves the
		// framing undefined (a recipient may reject it or skip it); a name that is not a token does not
		// by itself - unless it is a framing field name wrapped in junk - since the line structure, and
		// with it the end of the message, stays unambiguous
		c := bytes.IndexByte(line, ':')
		if c <= 0 {
			return body, len(b), nil, "undefined: trailer line without colon / with empty name"
		}
		name := strings.TrimRight(string(line[:c]), " \t")
		if !vpRefIsToken(name) {
			stripped := strings.ToLower(strings.TrimFunc(name, func(r rune) bool { return r <= ' ' || r >= 0x7f }))
			if stripped == "content-length" || stripped == "transfer-encoding" || name == "" {
				return body, len(b), nil, "malformed trailer field line"
			}
		}
		trailers = append(trailers, [2]string{name, vpRefTrimOWS(string(line[c+1:]))})
	}
}

func vpRefIsHex(c byte) bool {
	return c >= '0' && c <= '9' || c >= 'a' && c <= 'f' || c >= 'A' && c <= 'F'
}

func vpRefHexVal(c byte) int {
	switch {
	case c >= '0' && c <= '9':
		return int(c - '0')
	case c >= 'a' && c <= 'f':
		return int(c-'a') + 10
	default:
		return int(c-'A') + 10
	}
}

// vpRefChunkLineSyntax checks a chunk-size line (without CRLF). complete=false means the line may
// still be growing, so only errors already certain are reported.
func vpRefChunkLineSyntax(line []byte, complete bool) string {
	if bytes.IndexByte(line, '\n') >= 0 {
		return "bare LF in chunk-size line"
	}
	i := 0
	for i < len(line) && vpRefIsHex(line[i]) {
		i++
	}
	if i == 0 {
		if len(line) == 0 && !complete {
			return ""
		}
		return "chunk-size line does not start with a hex digit"
	}
	rest := line[i:]
	// chunk-ext
	for len(rest) > 0 {
		// BWS
		j := 0
		for j < len(rest) && (rest[j] == ' ' || rest[j] == '\t') {
			j++
		}
		if j == len(rest) {
			// trailing BWS before CRLF: not in the grammar, but the size is unambiguous; tolerated
			return ""
		}
		if rest[j] != ';' {
			return "unexpected byte after chunk size"
		}
		rest = rest[j+1:]
		// name [= value] up to next ';' (quoted strings may contain ';')
		inQ := false
		k := 0
		for k < len(rest) {
			c := rest[k]
			if inQ {
				if c == '\\' && k+1 < len(rest) {
					k += 2
					continue
				}
				if c == '"' {
					inQ = false
				}
			} else if c == '"' {
				inQ = true
			} else if c == ';' {
				break
			} else if c == '\r' {
				return "bare CR in chunk extension"
			}
			k++
		}
		rest = rest[k:]
	}
	return ""
}

// vpRefFrameAll frames a whole stream into consecutive request messages. It stops at the first
// message that is incomplete, Unknown, or whose end is undefined.
func vpRefFrameAll(b []byte) []*vpRefMsg {
	var out []*vpRefMsg
	off := 0
	for off < len(b) {
		m := vpRefParseRequest(b, off)
		out = append(out, m)
		if m.Unknown || !m.Complete {
			break
		}
		off = m.End
	}
	return out
}
