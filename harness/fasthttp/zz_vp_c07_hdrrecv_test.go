package fasthttp

// C07 — per-request limits set through Server.HeaderReceived apply to that request only: a raised
// MaxRequestBodySize must not stay in force for later requests on the same keep-alive connection
// (each request is bounded by its own effective limit L: body > L => not dispatched, error status,
// connection closed; body <= L => delivered intact).

import (
	"bufio"
	"bytes"
	"fmt"
	"io"
	"net/http"
	"strconv"
	"sync"
	"testing"
	"time"

	"pgregory.net/rapid"
)

type vpC07HRReq struct {
	Override int // 0 = none; otherwise HeaderReceived returns this MaxRequestBodySize for the request
	Size     int
	Chunked  bool
}

func TestVP_C07_PerRequestLimit(t *testing.T) {
	rapid.Check(t, func(t *rapid.T) {
		L := rapid.SampledFrom([]int{16, 100, 1000, 5000}).Draw(t, "L")
		rmu := rapid.Bool().Draw(t, "rmu")
		n := rapid.IntRange(2, 4).Draw(t, "n")
		var reqs []vpC07HRReq
		raisedBefore := false
		nontrivial := false
		for i := 0; i < n; i++ {
			var r vpC07HRReq
			if rapid.IntRange(0, 2).Draw(t, "raise") == 0 {
				r.Override = L * rapid.SampledFrom([]int{2, 10, 100}).Draw(t, "factor")
			} else if rapid.IntRange(0, 5).Draw(t, "lower") == 0 {
				r.Override = max(1, L/2)
			}
			eff := L
			if r.Override > 0 {
				eff = r.Override
			}
			r.Size = rapid.SampledFrom([]int{0, 1, eff - 1, eff, eff + 1, L + 1, 2 * L, 20 * L, 3 * eff}).Draw(t, "size")
			if r.Size < 0 {
				r.Size = 0
			}
			r.Chunked = rapid.Bool().Draw(t, "chunked")
			if raisedBefore && r.Override == 0 && r.Size > L {
				nontrivial = true
			}
			if r.Override > L {
				raisedBefore = true
			}
			reqs = append(reqs, r)
		}
		var mu sync.Mutex
		got := map[int][]byte{}
		s := &Server{
			MaxRequestBodySize: L,
			ReduceMemoryUsage:  rmu,
			Logger:             vpNopLogger{},
			HeaderReceived: func(h *RequestHeader) RequestConfig {
				if v := h.Peek("X-Raise"); len(v) > 0 {
					o, _ := strconv.Atoi(string(v))
					return RequestConfig{MaxRequestBodySize: o}
				}
				return RequestConfig{}
			},
			Handler: func(ctx *RequestCtx) {
				id, _ := strconv.Atoi(string(ctx.Request.Header.Peek("X-Id")))
				mu.Lock()
				got[id] = append([]byte(nil), ctx.PostBody()...)
				mu.Unlock()
				ctx.SetBodyString("ok")
			},
		}
		w := vpNewWire(nil, nil, false)
		done := make(chan struct{})
		go func() { s.ServeConn(w); close(done) }()
		off := 0
		fail := ""
		for i, r := range reqs {
			body := bytes.Repeat([]byte{byte('a' + i)}, r.Size)
			var b bytes.Buffer
			fmt.Fprintf(&b, "POST /r%d HTTP/1.1\r\nHost: h\r\nX-Id: %d\r\n", i, i)
			if r.Override > 0 {
				fmt.Fprintf(&b, "X-Raise: %d\r\n", r.Override)
			}
			if r.Chunked {
				b.WriteString("Transfer-Encoding: chunked\r\n\r\n")
				if r.Size > 0 {
					fmt.Fprintf(&b, "%x\r\n", r.Size)
					b.Write(body)
					b.WriteString("\r\n")
				}
				b.WriteString("0\r\n\r\n")
			} else {
				fmt.Fprintf(&b, "Content-Length: %d\r\n\r\n", r.Size)
				b.Write(body)
			}
			w.Feed(b.Bytes())
			status := 0
			w.WaitOut(20*time.Second, func(out []byte) bool {
				rr, err := http.ReadResponse(bufio.NewReader(bytes.NewReader(out[off:])), &http.Request{Method: "POST"})
				if err != nil {
					return false
				}
				if _, err := io.ReadAll(rr.Body); err != nil {
					return false
				}
				status = rr.StatusCode
				return true
			})
			off = w.OutLen()
			state := w.WaitIdleOrClosed(20 * time.Second)
			eff := L
			if r.Override > 0 {
				eff = r.Override
			}
			mu.Lock()
			seen, dispatched := got[i]
			mu.Unlock()
			if r.Size > eff {
				if dispatched {
					fail = fmt.Sprintf("request #%d: body of %d bytes exceeds its effective limit %d (server limit %d, override %d) but was buffered and dispatched (status %d)", i, r.Size, eff, L, r.Override, status)
				} else if status < 400 {
					fail = fmt.Sprintf("request #%d: over-limit body answered with status %d", i, status)
				} else if state != "closed" {
					fail = fmt.Sprintf("request #%d: over-limit body rejected (%d) but the connection stayed open", i, status)
				}
				break
			}
			if !dispatched || !bytes.Equal(seen, body) {
				fail = fmt.Sprintf("request #%d: body of %d bytes is within its effective limit %d but dispatched=%v with %d bytes (status %d)", i, r.Size, eff, dispatched, len(seen), status)
				break
			}
			if state == "closed" {
				break
			}
		}
		w.FinishInput()
		select {
		case <-done:
		case <-time.After(20 * time.Second):
			w.Close()
		}
		vpCase(fmt.Sprintf("per-request-limit/raised-before=%v", raisedBefore), nontrivial, fmt.Sprint(L, rmu, reqs), func() string { return fmt.Sprintf("L=%d rmu=%v reqs=%+v", L, rmu, reqs) })
		if fail != "" {
			t.Fatalf("C07 violation: %s\nL=%d rmu=%v reqs=%+v", fail, L, rmu, reqs)
		}
	})
}
