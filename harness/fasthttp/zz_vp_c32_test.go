package fasthttp

// C32 — byte-class lookup tables and canonicalisation match their definitions.
//
// The reference predicates below are written from the RFC texts, not from bytesconv_table_gen.go:
//   RFC 3986 §2.3   unreserved = ALPHA / DIGIT / "-" / "." / "_" / "~"
//   RFC 9110 §5.6.2 tchar = "!" / "#" / "$" / "%" / "&" / "'" / "*" / "+" / "-" / "." /
//                           "^" / "_" / "`" / "|" / "~" / DIGIT / ALPHA ;  token = 1*tchar
//   RFC 9110 §5.5   field-vchar = VCHAR / obs-text ; field values additionally carry SP / HTAB
//   RFC 5234 B.1    HEXDIG, ALPHA, DIGIT, VCHAR = %x21-7E
// Second opinions come from the standard library where it exposes one: strconv (hex), net/url
// (QueryEscape, EscapedPath), net/textproto (CanonicalMIMEHeaderKey), net/http (method check), html.

import (
	"bytes"
	"fmt"
	"html"
	"net/http"
	"net/textproto"
	"net/url"
	"strconv"
	"strings"
	"testing"

	"pgregory.net/rapid"
)

func vpC32Alpha(c int) bool { return (c >= 0x41 && c <= 0x5a) || (c >= 0x61 && c <= 0x7a) }
func vpC32Digit(c int) bool { return c >= 0x30 && c <= 0x39 }

func vpC32Unreserved(c int) bool {
	return vpC32Alpha(c) || vpC32Digit(c) || c == '-' || c == '.' || c == '_' || c == '~'
}

func vpC32TChar(c int) bool {
	if vpC32Alpha(c) || vpC32Digit(c) {
		return true
	}
	switch c {
	case '!', '#', '$', '%', '&', '\'', '*', '+', '-', '.', '^', '_', '`', '|', '~':
		return true
	}
	return false
}

// field-vchar / SP / HTAB: every byte that may occur inside a field value.
func vpC32FieldValueByte(c int) bool {
	return (c >= 0x21 && c <= 0x7e) || c >= 0x80 || c == 0x20 || c == 0x09
}

// path bytes left alone: unreserved plus the sub-delims and gen-delims a path may carry literally
// when it is handled as a whole ("$&+,/:;=@"), i.e. everything net/url leaves alone in a path.
func vpC32PathLiteral(c int) bool {
	return vpC32Unreserved(c) || strings.IndexByte("$&+,/:;=@", byte(c)) >= 0
}

func vpC32HexVal(c int) (int, bool) {
	switch {
	case c >= '0' && c <= '9':
		return c - '0', true
	case c >= 'a' && c <= 'f':
		return c - 'a' + 10, true
	case c >= 'A' && c <= 'F':
		return c - 'A' + 10, true
	}
	return 0, false
}

func vpC32Cell(t *testing.T, table string, c int, ok bool, format string, a ...any) {
	t.Helper()
	var sample func() string
	if c == 'A' { // one representative cell per table in the evidence samples
		sample = func() string { return fmt.Sprintf("%s[0x%02x 'A'] ok=%v (256 cells enumerated)", table, c, ok) }
	}
	vpCase("table/"+table, true, table+":"+strconv.Itoa(c), sample)
	if !ok {
		t.Errorf("%s[0x%02x %q]: %s", table, c, rune(c), fmt.Sprintf(format, a...))
	}
}

// TestVP_C32_Tables enumerates every byte value against every table (exhaustive, no sampling) and
// against the small functions that consult the tables.
func TestVP_C32_Tables(t *testing.T) {
	if len(hex2intTable) != 256 || len(toLowerTable) != 256 || len(toUpperTable) != 256 ||
		len(quotedArgShouldEscapeTable) != 256 || len(quotedPathShouldEscapeTable) != 256 ||
		len(validHeaderValueByteTable) != 256 || len(validMethodValueByteTable) != 256 {
		t.Fatalf("a byte-indexed table does not have 256 cells: hex %d lower %d upper %d arg %d path %d value %d method %d",
			len(hex2intTable), len(toLowerTable), len(toUpperTable), len(quotedArgShouldEscapeTable),
			len(quotedPathShouldEscapeTable), len(validHeaderValueByteTable), len(validMethodValueByteTable))
	}
	if n := len(validHeaderFieldByteTable); n != 128 && n != 256 {
		t.Fatalf("validHeaderFieldByteTable has %d cells, want 128 (guarded by c < 128) or 256", n)
	}
	for c := 0; c < 256; c++ {
		b := byte(c)

		// 1. hex digits
		hv, isHex := vpC32HexVal(c)
		got := int(hex2intTable[c])
		if isHex {
			vpC32Cell(t, "hex2intTable", c, got == hv, "= %d, want digit value %d", got, hv)
		} else {
			vpC32Cell(t, "hex2intTable", c, got == 16, "= %d, want 16 (the not-a-hex-digit marker readHexInt and the %%XX decoders compare with)", got)
		}
		if ishex(b) != isHex {
			t.Errorf("ishex(0x%02x) = %v, want %v", c, ishex(b), isHex)
		}
		if isHex && int(unhex(b)) != hv {
			t.Errorf("unhex(0x%02x) = %d, want %d", c, unhex(b), hv)
		}
		if v, err := strconv.ParseUint(string([]byte{b}), 16, 8); (err == nil) != isHex || (isHex && int(v) != hv) {
			t.Errorf("reference predicate disagrees with strconv on hex digit 0x%02x", c)
		}

		// 2. ASCII case mapping
		lo, up := c, c
		if c >= 'A' && c <= 'Z' {
			lo = c + 0x20
		}
		if c >= 'a' && c <= 'z' {
			up = c - 0x20
		}
		vpC32Cell(t, "toLowerTable", c, int(toLowerTable[c]) == lo, "= 0x%02x, want 0x%02x", toLowerTable[c], lo)
		vpC32Cell(t, "toUpperTable", c, int(toUpperTable[c]) == up, "= 0x%02x, want 0x%02x", toUpperTable[c], up)
		if c < 0x80 {
			if s := strings.ToLower(string(rune(c))); s != string(rune(lo)) {
				t.Errorf("reference predicate disagrees with strings.ToLower on 0x%02x", c)
			}
			if s := strings.ToUpper(string(rune(c))); s != string(rune(up)) {
				t.Errorf("reference predicate disagrees with strings.ToUpper on 0x%02x", c)
			}
		}
		lb := []byte{'x', b, 'Y'}
		lowercaseBytes(lb)
		if lb[0] != 'x' || int(lb[1]) != lo || lb[2] != 'y' {
			t.Errorf("lowercaseBytes(x 0x%02x Y) = %q", c, lb)
		}

		// 3. query escaping: everything but RFC 3986 unreserved is escaped
		wantArgEsc := !vpC32Unreserved(c)
		vpC32Cell(t, "quotedArgShouldEscapeTable", c, (quotedArgShouldEscapeTable[c] != 0) == wantArgEsc, "= %d, want should-escape=%v (unreserved=%v)", quotedArgShouldEscapeTable[c], wantArgEsc, !wantArgEsc)
		wantArg := fmt.Sprintf("%%%02X", c)
		if !wantArgEsc {
			wantArg = string([]byte{b})
		} else if c == ' ' {
			wantArg = "+"
		}
		if g := string(AppendQuotedArg(nil, []byte{b})); g != wantArg {
			t.Errorf("AppendQuotedArg(0x%02x) = %q, want %q", c, g, wantArg)
		}
		if q := url.QueryEscape(string([]byte{b})); q != wantArg {
			t.Errorf("reference predicate disagrees with url.QueryEscape on 0x%02x: %q vs %q", c, q, wantArg)
		}

		// 4. path escaping
		wantPathEsc := !vpC32PathLiteral(c)
		vpC32Cell(t, "quotedPathShouldEscapeTable", c, (quotedPathShouldEscapeTable[c] != 0) == wantPathEsc, "= %d, want should-escape=%v", quotedPathShouldEscapeTable[c], wantPathEsc)
		wantPath := fmt.Sprintf("/%%%02X/", c)
		if !wantPathEsc {
			wantPath = "/" + string([]byte{b}) + "/"
		}
		if g := string(appendQuotedPath(nil, []byte{'/', b, '/'})); g != wantPath {
			t.Errorf("appendQuotedPath(/ 0x%02x /) = %q, want %q", c, g, wantPath)
		}
		if q := (&url.URL{Path: "/" + string([]byte{b}) + "/"}).EscapedPath(); q != wantPath {
			t.Errorf("reference predicate disagrees with net/url EscapedPath on 0x%02x: %q vs %q", c, q, wantPath)
		}

		// 5. header field name bytes (tchar)
		tch := vpC32TChar(c)
		if c < len(validHeaderFieldByteTable) {
			vpC32Cell(t, "validHeaderFieldByteTable", c, (validHeaderFieldByteTable[c] == 1) == tch, "= %d, want tchar=%v", validHeaderFieldByteTable[c], tch)
		} else {
			// no cell: the table covers 0..127 and the guard must reject the rest
			vpC32Cell(t, "validHeaderFieldByteTable", c, !validHeaderFieldByte(b) && !tch, "outside the table: validHeaderFieldByte = %v, want false", validHeaderFieldByte(b))
		}
		if validHeaderFieldByte(b) != tch {
			t.Errorf("validHeaderFieldByte(0x%02x) = %v, want %v", c, validHeaderFieldByte(b), tch)
		}
		// net/textproto canonicalises a key iff all its bytes are tchar ('a' becomes 'A')
		probe := "a" + string([]byte{b}) + "b"
		if (textproto.CanonicalMIMEHeaderKey(probe) != probe) != tch {
			t.Errorf("reference predicate disagrees with net/textproto on tchar 0x%02x", c)
		}

		// 6. header field value bytes
		fv := vpC32FieldValueByte(c)
		vpC32Cell(t, "validHeaderValueByteTable", c, (validHeaderValueByteTable[c] == 1) == fv, "= %d, want field-value byte=%v", validHeaderValueByteTable[c], fv)
		if validHeaderValueByte(b) != fv {
			t.Errorf("validHeaderValueByte(0x%02x) = %v, want %v", c, validHeaderValueByte(b), fv)
		}

		// 7. method bytes (method = token)
		vpC32Cell(t, "validMethodValueByteTable", c, (validMethodValueByteTable[c] != 0) == tch, "= %d, want tchar=%v", validMethodValueByteTable[c], tch)
		if isValidMethod([]byte{'G', b, 'T'}) != tch {
			t.Errorf("isValidMethod(G 0x%02x T) = %v, want %v", c, isValidMethod([]byte{'G', b, 'T'}), tch)
		}
		if _, err := http.NewRequest("G"+string([]byte{b})+"T", "http://x/", nil); (err == nil) != tch {
			t.Errorf("reference predicate disagrees with net/http on method byte 0x%02x (err=%v)", c, err)
		}
	}
}

var vpC32TChars = func() []byte {
	var s []byte
	for c := 0; c < 256; c++ {
		if vpC32TChar(c) {
			s = append(s, byte(c))
		}
	}
	return s
}()

func vpC32CheckCanon(fatalf func(string, ...any), tok string) {
	want := textproto.CanonicalMIMEHeaderKey(tok)
	b := []byte(tok)
	normalizeHeaderKey(b, false)
	if string(b) != want {
		fatalf("normalizeHeaderKey(%q) = %q, textproto.CanonicalMIMEHeaderKey = %q", tok, b, want)
	}
	b = []byte(tok)
	normalizeHeaderKeyValidated(b, false)
	if string(b) != want {
		fatalf("normalizeHeaderKeyValidated(%q) = %q, textproto.CanonicalMIMEHeaderKey = %q", tok, b, want)
	}
	if g := AppendNormalizedHeaderKey([]byte("p:"), tok); string(g) != "p:"+want {
		fatalf("AppendNormalizedHeaderKey(%q) = %q, want %q", tok, g, "p:"+want)
	}
}

// Exhaustive small domains: every token of length 1 and 2, every token of length 3 and 4 over a
// reduced alphabet; every 1- and 2-byte string for the HTML escaper.
func TestVP_C32_SmallDomains(t *testing.T) {
	if len(vpC32TChars) != 77 {
		t.Fatalf("reference tchar set has %d members, RFC 9110 lists 77", len(vpC32TChars))
	}
	fatalf := func(f string, a ...any) { t.Errorf(f, a...) }
	for _, a := range vpC32TChars {
		tok := string([]byte{a})
		vpCase("canon/exhaustive-len1", true, tok, nil)
		vpC32CheckCanon(fatalf, tok)
		for _, b := range vpC32TChars {
			tok := string([]byte{a, b})
			vpCase("canon/exhaustive-len2", true, tok, nil)
			vpC32CheckCanon(fatalf, tok)
		}
	}
	small := []byte("aZ-0_|")
	var rec func(prefix []byte, n int)
	rec = func(prefix []byte, n int) {
		if n == 0 {
			tok := string(prefix)
			vpCase(fmt.Sprintf("canon/exhaustive-len%d-small-alphabet", len(prefix)), true, tok, nil)
			vpC32CheckCanon(fatalf, tok)
			return
		}
		for _, c := range small {
			rec(append(prefix, c), n-1)
		}
	}
	rec(nil, 3)
	rec(nil, 4)
	if t.Failed() {
		return
	}
	for a := 0; a < 256; a++ {
		s := string([]byte{byte(a)})
		vpCase("html/exhaustive-len1", true, s, nil)
		if g, w := string(AppendHTMLEscape(nil, s)), html.EscapeString(s); g != w {
			t.Errorf("AppendHTMLEscape(%q) = %q, html.EscapeString = %q", s, g, w)
		}
		for b := 0; b < 256; b++ {
			s := string([]byte{byte(a), byte(b)})
			vpCase("html/exhaustive-len2", true, s, nil)
			if g, w := string(AppendHTMLEscape(nil, s)), html.EscapeString(s); g != w {
				t.Errorf("AppendHTMLEscape(%q) = %q, html.EscapeString = %q", s, g, w)
				if b > 8 {
					return
				}
			}
		}
	}
}

var vpC32KnownKeys = []string{"content-type", "CONTENT-LENGTH", "host", "user-agent", "x-forwarded-for", "etag", "www-authenticate", "te", "dnt", "sec-websocket-key", "x-xss-protection", "accept-ch", "a-im", "content-md5", "http2-settings"}

func vpC32GenToken() *rapid.Generator[string] {
	return rapid.Custom(func(t *rapid.T) string {
		var b []byte
		switch rapid.IntRange(0, 5).Draw(t, "tshape") {
		case 0: // any tchars
			n := rapid.IntRange(1, 40).Draw(t, "n")
			for i := 0; i < n; i++ {
				b = append(b, rapid.SampledFrom(vpC32TChars).Draw(t, "tchar"))
			}
		case 1, 2: // words of letters/digits joined by separators, '-' most of the time
			nw := rapid.IntRange(1, 6).Draw(t, "words")
			for i := 0; i < nw; i++ {
				if i > 0 || rapid.IntRange(0, 7).Draw(t, "leadsep") == 3 {
					b = append(b, rapid.SampledFrom([]byte{'-', '-', '-', '-', '_', '.', '|', '~', '`', '^'}).Draw(t, "sep"))
					if rapid.IntRange(0, 5).Draw(t, "dblsep") == 2 {
						b = append(b, '-')
					}
				}
				wl := rapid.IntRange(0, 8).Draw(t, "wordlen")
				for j := 0; j < wl; j++ {
					b = append(b, rapid.SampledFrom([]byte("abcxyzABCXYZ0189qQ")).Draw(t, "letter"))
				}
			}
			if rapid.IntRange(0, 7).Draw(t, "trailsep") == 3 {
				b = append(b, '-')
			}
			if len(b) == 0 {
				b = append(b, '-')
			}
		case 3: // a well-known header name in a random letter case
			b = []byte(rapid.SampledFrom(vpC32KnownKeys).Draw(t, "known"))
			for i := range b {
				if vpC32Alpha(int(b[i])) && rapid.Bool().Draw(t, "flip") {
					b[i] ^= 0x20
				}
			}
		case 4: // the bytes next to the case ranges: '@' '[' '`' '{' are not all tchar, so use tchar neighbours
			n := rapid.IntRange(1, 12).Draw(t, "n")
			for i := 0; i < n; i++ {
				b = append(b, rapid.SampledFrom([]byte("AZaz`^_|~-0!#$%&'*+.9")).Draw(t, "edge"))
			}
		default: // long keys
			n := rapid.IntRange(40, 300).Draw(t, "n")
			for i := 0; i < n; i++ {
				b = append(b, rapid.SampledFrom([]byte("aA-bB-09_zZ")).Draw(t, "c"))
			}
		}
		return string(b)
	})
}

func TestVP_C32_CanonicalHeaderKey(t *testing.T) {
	rapid.Check(t, func(t *rapid.T) {
		tok := vpC32GenToken().Draw(t, "token")
		for i := 0; i < len(tok); i++ {
			if !vpC32TChar(int(tok[i])) {
				t.Fatalf("generator bug: %q is not a token", tok)
			}
		}
		class := "canon/no-dash"
		switch {
		case strings.Contains(tok, "--") || strings.HasPrefix(tok, "-") || strings.HasSuffix(tok, "-"):
			class = "canon/edge-dash"
		case strings.Contains(tok, "-"):
			class = "canon/dash"
		}
		vpCase(class, len(tok) > 2, tok, func() string { return fmt.Sprintf("%q -> %q", tok, textproto.CanonicalMIMEHeaderKey(tok)) })
		vpC32CheckCanon(t.Fatalf, tok)
	})
}

func vpC32GenHTML() *rapid.Generator[string] {
	pieces := []string{"&", "<", ">", "\"", "'", "&amp;", "&#39;", "&lt;", "<script>", "</a>", "a", "Z", " ", "\n", "\x00", "é", "日本", "\xff", "\xc3", "&&", "<<>>", "''", "\"\"", ";", "#", "%26", " ", "�"}
	return rapid.Custom(func(t *rapid.T) string {
		switch rapid.IntRange(0, 3).Draw(t, "hshape") {
		case 0:
			return string(rapid.SliceOfN(rapid.Byte(), 0, 40).Draw(t, "bytes"))
		case 1:
			return rapid.String().Draw(t, "str")
		case 2:
			return string(rapid.SliceOfN(rapid.SampledFrom([]byte("&<>\"'ab;#")), 0, 30).Draw(t, "special"))
		default:
			n := rapid.IntRange(0, 12).Draw(t, "n")
			var sb strings.Builder
			for i := 0; i < n; i++ {
				sb.WriteString(rapid.SampledFrom(pieces).Draw(t, "piece"))
			}
			return sb.String()
		}
	})
}

func TestVP_C32_HTMLEscape(t *testing.T) {
	rapid.Check(t, func(t *rapid.T) {
		s := vpC32GenHTML().Draw(t, "s")
		prefix := rapid.SliceOfN(rapid.Byte(), 0, 4).Draw(t, "prefix")
		want := html.EscapeString(s)
		nspecial := len(want) - len(s)
		class := "html/no-special"
		if nspecial > 0 {
			class = "html/special"
		}
		vpCase(class, nspecial > 0 && len(s) > 2, s, func() string { return fmt.Sprintf("%q -> %q", s, want) })
		got := AppendHTMLEscape(append([]byte(nil), prefix...), s)
		if !bytes.HasPrefix(got, prefix) {
			t.Fatalf("AppendHTMLEscape clobbered dst prefix")
		}
		if string(got[len(prefix):]) != want {
			t.Fatalf("AppendHTMLEscape(%q) = %q, html.EscapeString = %q", s, got[len(prefix):], want)
		}
		in := []byte(s)
		got = AppendHTMLEscapeBytes(append([]byte(nil), prefix...), in)
		if string(got[len(prefix):]) != want {
			t.Fatalf("AppendHTMLEscapeBytes(%q) = %q, html.EscapeString = %q", s, got[len(prefix):], want)
		}
	})
}
