package fasthttp

// C22 — compression is transparent.
//
// Handler level: CompressHandler / CompressHandlerLevel / CompressHandlerBrotliLevel wrapped around a
// generated handler, served through the real Server.ServeConn, response parsed with net/http and
// decoded with independent decoders; acceptability judged by an own RFC 9110 §12.5.3 parser.
// Function level: Append*/Write* at all levels round-trip through the fasthttp counterparts and the
// independent decoders, for every one of n simultaneous calls (n small here; the bursts up to and
// beyond the worker-queue capacity are in zz_vp_c22_load_test.go).

import (
	"bufio"
	"bytes"
	"errors"
	"fmt"
	"io"
	"net"
	"net/http"
	"os"
	"os/exec"
	"strconv"
	"strings"
	"sync"
	"testing"
	"time"

	"pgregory.net/rapid"
)

// ---------------------------------------------------------------------------------------------
// independent Accept-Encoding evaluation (RFC 9110 §12.5.3, §12.4.2)

type vpC22AE struct {
	present bool
	// coding (lower case) -> best weight seen, in thousandths; -1 = element present but weight unparsable
	q map[string]int
}

func vpC22IsTchar(c byte) bool {
	if c >= '0' && c <= '9' || c >= 'a' && c <= 'z' || c >= 'A' && c <= 'Z' {
		return true
	}
	return strings.IndexByte("!#$%&'*+-.^_`|~", c) >= 0
}

// vpC22ParseQ parses a qvalue ("0" [ "." 0*3DIGIT ] / "1" [ "." 0*3("0") ]) into thousandths; -1 if malformed.
func vpC22ParseQ(s string) int {
	if s == "" {
		return -1
	}
	if s[0] != '0' && s[0] != '1' {
		return -1
	}
	v := int(s[0]-'0') * 1000
	if len(s) == 1 {
		return v
	}
	if s[1] != '.' || len(s) > 5 {
		return -1
	}
	mul := 100
	for i := 2; i < len(s); i++ {
		if s[i] < '0' || s[i] > '9' {
			return -1
		}
		v += int(s[i]-'0') * mul
		mul /= 10
	}
	if v > 1000 {
		return -1
	}
	return v
}

func vpC22ParseAE(present bool, values []string) vpC22AE {
	ae := vpC22AE{present: present, q: map[string]int{}}
	for _, v := range values {
		for _, el := range strings.Split(v, ",") {
			el = strings.Trim(el, " \t")
			if el == "" {
				continue // empty list elements are ignored (RFC 9110 §5.6.1)
			}
			coding := el
			weight := 1000
			if i := strings.IndexByte(el, ';'); i >= 0 {
				coding = strings.TrimRight(el[:i], " \t")
				p := strings.TrimLeft(el[i+1:], " \t")
				if len(p) >= 2 && (p[0] == 'q' || p[0] == 'Q') && p[1] == '=' {
					weight = vpC22ParseQ(p[2:])
				} else {
					weight = -1
				}
			}
			ok := coding != ""
			for i := 0; i < len(coding); i++ {
				if !vpC22IsTchar(coding[i]) {
					ok = false
				}
			}
			if !ok {
				// not a token: remember every known coding name it mentions as "unparsable"
				for _, k := range []string{"gzip", "deflate", "br", "zstd", "identity", "*"} {
					if strings.Contains(strings.ToLower(el), k) {
						ae.q[k] = -1 // a malformed member that names the coding makes the field ambiguous for it, whatever else is listed
					}
				}
				continue
			}
			coding = strings.ToLower(coding)
			if coding == "x-gzip" {
				coding = "gzip"
			}
			if old, seen := ae.q[coding]; !seen || (old >= 0 && weight > old) || (weight < 0) {
				// keep the most permissive reading: unparsable beats everything, else the larger weight
				if !(seen && old < 0) {
					ae.q[coding] = weight
				}
			}
		}
	}
	return ae
}

// accepts: 1 = acceptable, 0 = not acceptable, -1 = the field is malformed/ambiguous for this coding (either is fine).
func (ae vpC22AE) accepts(coding string) int {
	if !ae.present {
		return 1 // no field: any content coding is acceptable
	}
	if q, ok := ae.q[coding]; ok {
		if q < 0 {
			return -1
		}
		if q > 0 {
			return 1
		}
		return 0
	}
	if q, ok := ae.q["*"]; ok {
		if q < 0 {
			return -1
		}
		if q > 0 {
			return 1
		}
		return 0
	}
	if coding == "identity" {
		return 1
	}
	return 0
}

var vpC22QStrs = []string{"", "", "", "q=1", "q=1.0", "q=1.000", "q=0.5", "q=0.8", "q=0.001", "q=0", "q=0", "q=0.0", "q=0.000", "Q=0", "Q=0.3"}
var vpC22Codings = []string{"gzip", "gzip", "deflate", "deflate", "br", "br", "zstd", "zstd", "identity", "*", "compress", "x-gzip", "foo", "GZIP", "Gzip", "BR", "Deflate", "ZSTD", "gzipx", "xbr", "not-gzip", "zstd-x"}

type vpC22AEGen struct {
	present bool
	values  []string
}

func vpC22GenAE(t *rapid.T) vpC22AEGen {
	switch rapid.IntRange(0, 19).Draw(t, "aeShape") {
	case 0:
		return vpC22AEGen{present: false}
	case 1:
		return vpC22AEGen{present: true, values: []string{rapid.SampledFrom([]string{"", " ", "identity", "*", "*;q=0", "identity;q=0", "gzip, deflate, br, zstd", "gzip, deflate, br", "br", "zstd", "deflate", "gzip"}).Draw(t, "aeFixed")}}
	}
	if rapid.IntRange(0, 9).Draw(t, "aeSimple") < 4 {
		// the everyday shape: a plain list of well-known codings in some order
		perm := rapid.Permutation([]string{"gzip", "deflate", "br", "zstd", "identity"}).Draw(t, "aePerm")
		k := rapid.IntRange(1, 4).Draw(t, "aeK")
		return vpC22AEGen{present: true, values: []string{strings.Join(perm[:k], ", ")}}
	}
	n := rapid.IntRange(1, 5).Draw(t, "aeN")
	var sb strings.Builder
	for i := 0; i < n; i++ {
		if i > 0 {
			sb.WriteString(rapid.SampledFrom([]string{", ", ", ", ", ", ",", " , ", ",  ", ",\t", ", ,"}).Draw(t, "aeSep"))
		}
		sb.WriteString(rapid.SampledFrom(vpC22Codings).Draw(t, "aeCoding"))
		q := rapid.SampledFrom(vpC22QStrs).Draw(t, "aeQ")
		if q != "" {
			sb.WriteString(rapid.SampledFrom([]string{";", ";", "; ", " ;", " ; ", ";\t"}).Draw(t, "aeSemi"))
			sb.WriteString(q)
		}
	}
	if rapid.IntRange(0, 15).Draw(t, "aeMalformed") == 0 {
		sb.WriteString(rapid.SampledFrom([]string{", gzip;q=abc", ", gzip;level=9", ", gzip;q=2", ", br gzip", ";"}).Draw(t, "aeBad"))
	}
	g := vpC22AEGen{present: true, values: []string{sb.String()}}
	if rapid.IntRange(0, 11).Draw(t, "aeTwoLines") == 0 {
		g.values = append(g.values, rapid.SampledFrom([]string{"gzip", "br", "identity", "gzip;q=0", "zstd", "deflate"}).Draw(t, "aeSecond"))
	}
	return g
}

// ---------------------------------------------------------------------------------------------
// generated handler

type vpC22Handler struct {
	status      int
	contentType string // "" = leave fasthttp's default
	presetCE    string
	presetCEVia int
	presetVary  string
	mode        int
	pieces      []int // split plan for piecewise modes
	body        []byte
}

var vpC22ContentTypes = []string{
	"", "text/html", "text/html; charset=utf-8", "text/plain", "application/json", "application/javascript", "application/octet-stream",
	"image/svg+xml", "image/x-icon", "font/woff2", "multipart/mixed",
	"image/png", "video/mp4", "audio/mpeg", "image/jpeg", "TEXT/HTML", "x-custom/thing",
}

var vpC22Modes = []string{"SetBody", "SetBodyString", "AppendBody", "ctx.Write", "SetBodyRaw", "SetBodyStream(size)", "SetBodyStream(-1)", "SetBodyStreamWriter", "SetBodyStream(size)+Closer",
	"SetBodyStream(size)+BodyWriterTo(false)", "SetBodyStream(-1)+BodyWriterTo(false)", "SetBodyStream(-1)+BodyWriterTo(true)"}

func vpC22GenBody(t *rapid.T, maxSize int) []byte {
	var size int
	switch rapid.IntRange(0, 9).Draw(t, "sizeClass") {
	case 0:
		size = rapid.SampledFrom([]int{0, 1, 198, 199, 200, 201, 202}).Draw(t, "sizeEdge")
	case 1:
		size = rapid.IntRange(0, 199).Draw(t, "sizeSmall")
	case 2, 3, 4:
		size = rapid.IntRange(200, 4096).Draw(t, "sizeMid")
	case 5, 6:
		size = rapid.IntRange(4097, 20000).Draw(t, "sizeBig")
	case 7:
		size = rapid.SampledFrom([]int{4095, 4096, 4097, 8191, 8192, 8193, 16384, 32768, 65535, 65536}).Draw(t, "sizePow")
	default:
		size = rapid.IntRange(20001, 65536).Draw(t, "sizeHuge")
	}
	if size > maxSize {
		size = maxSize
	}
	kind := rapid.IntRange(0, 5).Draw(t, "bodyKind")
	if kind == 5 {
		// arbitrary drawn bytes (shrinkable), repeated up to size
		unit := rapid.SliceOfN(rapid.Byte(), 1, 64).Draw(t, "bodyUnit")
		b := make([]byte, size)
		for i := range b {
			b[i] = unit[i%len(unit)]
		}
		return b
	}
	return vpC22Body(kind, size, rapid.Uint64Range(0, 1<<32).Draw(t, "bodySeed"))
}

func vpC22GenHandler(t *rapid.T) *vpC22Handler {
	h := &vpC22Handler{status: 200}
	if rapid.IntRange(0, 7).Draw(t, "statusOther") == 0 {
		h.status = rapid.SampledFrom([]int{201, 203, 400, 404, 500, 503}).Draw(t, "status")
	}
	if rapid.IntRange(0, 3).Draw(t, "ctAny") == 0 {
		h.contentType = rapid.SampledFrom(vpC22ContentTypes).Draw(t, "ct")
	} else {
		h.contentType = rapid.SampledFrom(vpC22ContentTypes[:8]).Draw(t, "ctCompressible")
	}
	if rapid.IntRange(0, 5).Draw(t, "preset") == 0 {
		h.presetCE = rapid.SampledFrom([]string{"gzip", "br", "deflate", "zstd", "identity", "x-custom", "compress", "gzip, br"}).Draw(t, "presetCE")
		h.presetCEVia = rapid.IntRange(0, 3).Draw(t, "presetVia")
	}
	if rapid.IntRange(0, 3).Draw(t, "varyPreset") == 0 {
		h.presetVary = rapid.SampledFrom([]string{"Origin", "accept-encoding", "Accept-Encoding", "Origin, Accept-Encoding", "Origin,User-Agent", "*", "Cookie", "X-Accept-Encoding-Policy", "Origin, X-Accept-Encoding-Policy"}).Draw(t, "vary")
	}
	h.mode = rapid.IntRange(0, len(vpC22Modes)-1).Draw(t, "mode")
	h.body = vpC22GenBody(t, 65536)
	np := rapid.IntRange(1, 6).Draw(t, "npieces")
	for i := 0; i < np; i++ {
		h.pieces = append(h.pieces, rapid.SampledFrom([]int{1, 7, 100, 199, 200, 1000, 4096, 5000, 70000}).Draw(t, "piece"))
	}
	return h
}

type vpC22ChunkReader struct {
	b      []byte
	pieces []int
	i      int
	closed *int32
}

func (r *vpC22ChunkReader) Read(p []byte) (int, error) {
	if len(r.b) == 0 {
		return 0, io.EOF
	}
	n := r.pieces[r.i%len(r.pieces)]
	r.i++
	if n > len(p) {
		n = len(p)
	}
	n = copy(p[:n], r.b)
	r.b = r.b[n:]
	return n, nil
}

type vpC22ChunkReadCloser struct {
	vpC22ChunkReader
}

// vpC22OptReader implements BodyWriterTo. With allow=false fasthttp has to consume it through Read (which
// yields the handler's body); its WriteTo - as one promoted from an embedded reader would - emits other bytes.
// With allow=true WriteTo emits the same body as Read would.
type vpC22OptReader struct {
	vpC22ChunkReader
	allow bool
}

func (r *vpC22OptReader) SupportsBodyWriteTo() bool { return r.allow }

func (r *vpC22OptReader) WriteTo(w io.Writer) (int64, error) {
	b := r.b
	r.b = nil
	if !r.allow {
		b = bytes.ToUpper(append([]byte("<<written by WriteTo although SupportsBodyWriteTo is false>>"), b...))
	}
	n, err := w.Write(b)
	return int64(n), err
}

func (r *vpC22ChunkReadCloser) Close() error { return nil }

func (h *vpC22Handler) serve(ctx *RequestCtx) {
	ctx.SetStatusCode(h.status)
	if h.contentType != "" {
		ctx.SetContentType(h.contentType)
	}
	if h.presetVary != "" {
		ctx.Response.Header.Set("Vary", h.presetVary)
	}
	if h.presetCE != "" {
		switch h.presetCEVia {
		case 0:
			ctx.Response.Header.SetContentEncoding(h.presetCE)
		case 1:
			ctx.Response.Header.Set("Content-Encoding", h.presetCE)
		case 2:
			ctx.Response.Header.Set("content-encoding", h.presetCE)
		default:
			ctx.Response.Header.SetContentEncodingBytes([]byte(h.presetCE))
		}
	}
	body := append([]byte(nil), h.body...) // the handler owns its copy
	switch h.mode {
	case 0:
		ctx.SetBody(body)
	case 1:
		ctx.SetBodyString(string(body))
	case 2, 3:
		i := 0
		for len(body) > 0 {
			n := min(h.pieces[i%len(h.pieces)], len(body))
			i++
			if h.mode == 2 {
				ctx.Response.AppendBody(body[:n])
			} else {
				ctx.Write(body[:n]) //nolint:errcheck
			}
			body = body[n:]
		}
	case 4:
		ctx.Response.SetBodyRaw(body)
	case 5:
		ctx.SetBodyStream(&vpC22ChunkReader{b: body, pieces: h.pieces}, len(body))
	case 6:
		ctx.SetBodyStream(&vpC22ChunkReader{b: body, pieces: h.pieces}, -1)
	case 7:
		pieces := h.pieces
		ctx.SetBodyStreamWriter(func(w *bufio.Writer) {
			i := 0
			for len(body) > 0 {
				n := min(pieces[i%len(pieces)], len(body))
				if _, err := w.Write(body[:n]); err != nil {
					return
				}
				if i%2 == 0 {
					if err := w.Flush(); err != nil {
						return
					}
				}
				i++
				body = body[n:]
			}
		})
	case 8:
		ctx.SetBodyStream(&vpC22ChunkReadCloser{vpC22ChunkReader{b: body, pieces: h.pieces}}, len(body))
	case 9:
		ctx.SetBodyStream(&vpC22OptReader{vpC22ChunkReader: vpC22ChunkReader{b: body, pieces: h.pieces}}, len(body))
	case 10:
		ctx.SetBodyStream(&vpC22OptReader{vpC22ChunkReader: vpC22ChunkReader{b: body, pieces: h.pieces}}, -1)
	default:
		ctx.SetBodyStream(&vpC22OptReader{vpC22ChunkReader: vpC22ChunkReader{b: body, pieces: h.pieces}, allow: true}, -1)
	}
}

func (h *vpC22Handler) streamed() bool { return h.mode >= 5 }

func (h *vpC22Handler) compressibleType() bool {
	ct := h.contentType
	if ct == "" {
		return true // fasthttp's default content type is text/plain; charset=utf-8
	}
	for _, p := range []string{"text/", "application/", "image/svg", "image/x-icon", "font/", "multipart/"} {
		if strings.HasPrefix(ct, p) {
			return true
		}
	}
	return false
}

// ---------------------------------------------------------------------------------------------
// in-memory connection: the request bytes, then EOF; everything the server writes is captured

type vpC22Conn struct {
	r      *bytes.Reader
	w      bytes.Buffer
	closed bool
}

type vpC22Addr struct{}

func (vpC22Addr) Network() string { return "tcp" }
func (vpC22Addr) String() string  { return "127.0.0.1:12345" }

func (c *vpC22Conn) Read(p []byte) (int, error)       { return c.r.Read(p) }
func (c *vpC22Conn) Write(p []byte) (int, error)      { return c.w.Write(p) }
func (c *vpC22Conn) Close() error                     { c.closed = true; return nil }
func (c *vpC22Conn) LocalAddr() net.Addr              { return vpC22Addr{} }
func (c *vpC22Conn) RemoteAddr() net.Addr             { return vpC22Addr{} }
func (c *vpC22Conn) SetDeadline(time.Time) error      { return nil }
func (c *vpC22Conn) SetReadDeadline(time.Time) error  { return nil }
func (c *vpC22Conn) SetWriteDeadline(time.Time) error { return nil }

type vpC22NullLogger struct{}

func (vpC22NullLogger) Printf(string, ...any) {}

type vpC22Wrapper struct {
	kind        int // 0 CompressHandler, 1 CompressHandlerLevel, 2 CompressHandlerBrotliLevel, 3 nested
	level       int
	brotliLevel int
}

func (w vpC22Wrapper) String() string {
	switch w.kind {
	case 0:
		return "CompressHandler"
	case 1:
		return fmt.Sprintf("CompressHandlerLevel(%d)", w.level)
	case 2:
		return fmt.Sprintf("CompressHandlerBrotliLevel(%d,%d)", w.brotliLevel, w.level)
	default:
		return fmt.Sprintf("CompressHandlerBrotliLevel(CompressHandlerLevel(h,%d),%d,%d)", w.level, w.brotliLevel, w.level)
	}
}

func (w vpC22Wrapper) name() string {
	return []string{"CompressHandler", "CompressHandlerLevel", "CompressHandlerBrotliLevel", "nested"}[w.kind]
}

func (w vpC22Wrapper) wrap(h RequestHandler) RequestHandler {
	switch w.kind {
	case 0:
		return CompressHandler(h)
	case 1:
		return CompressHandlerLevel(h, w.level)
	case 2:
		return CompressHandlerBrotliLevel(h, w.brotliLevel, w.level)
	default:
		return CompressHandlerBrotliLevel(CompressHandlerLevel(h, w.level), w.brotliLevel, w.level)
	}
}

func (w vpC22Wrapper) supports(coding string) bool {
	switch coding {
	case "gzip", "deflate", "zstd":
		return true
	case "br":
		return w.kind >= 2
	}
	return false
}

func vpC22GenLevel(t *rapid.T, label string) int {
	if rapid.Bool().Draw(t, label+"Edge") {
		return rapid.SampledFrom([]int{-10, -3, -2, -1, 0, 1, 2, 3, 4, 5, 6, 9, 10, 11, 12, 20}).Draw(t, label+"E")
	}
	return rapid.IntRange(-10, 20).Draw(t, label)
}

// vpC22GenLevelFor draws a level for one codec; the levels that make the encoder allocate tens of MiB per
// call (brotli quality >= 10 incl. everything above the range, zstd "better"/"best") stay in the
// domain but are drawn less often so the case budget is not spent on clearing hash tables.
func vpC22GenLevelFor(t *rapid.T, codec, label string) int {
	l := vpC22GenLevel(t, label)
	if vpC22HeavyLevel(codec, l) && rapid.IntRange(0, vpC22HeavyDivisor(codec, l)-1).Draw(t, label+"KeepHeavy") != 0 {
		l = rapid.IntRange(-10, 2).Draw(t, label+"Light")
	}
	return l
}

func vpC22HeavyDivisor(codec string, l int) int {
	if codec == "zstd" && l == 4 {
		return 10 // klauspost's "best" encoder clears ~100 MiB of tables per stream
	}
	return 4
}

func vpC22HeavyLevel(codec string, l int) bool {
	switch codec {
	case "brotli":
		return l >= 7 // hash tables of 8 MiB (quality 7) to >100 MiB (10, 11 and everything above the range) per stream
	case "zstd":
		return l == 3 || l == 4
	}
	return false
}

func vpC22DecoderFor(coding string) *vpC22Codec {
	for _, c := range vpC22Codecs() {
		if c.enc == coding {
			return c
		}
	}
	return nil
}

func vpC22VaryHasAE(values []string) bool {
	for _, v := range values {
		for _, m := range strings.Split(v, ",") {
			m = strings.Trim(m, " \t")
			if m == "*" || strings.EqualFold(m, "Accept-Encoding") {
				return true
			}
		}
	}
	return false
}

const vpC22KeyVary = "C22/vary-substring-match"

// vpC22VaryProbe: a handler-set Vary value that merely CONTAINS the text "Accept-Encoding" inside another
// field name; is Accept-Encoding still added when the wrapper compresses?
var vpC22VaryOnce sync.Once

func vpC22VaryProbe() {
	vpC22VaryOnce.Do(func() {
		h := &vpC22Handler{status: 200, contentType: "text/plain", presetVary: "X-Accept-Encoding-Policy", body: vpC22Body(1, 1000, 3), pieces: []int{100}}
		r := vpC22ServeOne(vpC22Wrapper{kind: 0, level: CompressDefaultCompression}, h, vpC22AEGen{present: true, values: []string{"gzip"}}, "GET", "Accept-Encoding", true)
		present := r.err != "" && strings.Contains(r.err, "lacks Vary")
		detail := "preset Vary: X-Accept-Encoding-Policy + gzip compression -> Vary " + fmt.Sprintf("%q", r.vary)
		if r.err != "" {
			detail += ": " + r.err
		}
		vpProbe(vpC22KeyVary, present, detail)
	})
}

type vpC22Result struct {
	err        string // "" = all assertions hold
	outcome    string
	nontrivial bool
	wire       int
	vary       []string
	desc       func() string
}

// vpC22ServeOne serves one request through a fresh Server on an in-memory connection and evaluates the response.
func vpC22ServeOne(w vpC22Wrapper, h *vpC22Handler, ae vpC22AEGen, method, aeName string, connClose bool) (res vpC22Result) {
	fail := func(format string, a ...any) vpC22Result {
		res.err = fmt.Sprintf(format, a...)
		return res
	}
	var req bytes.Buffer
	fmt.Fprintf(&req, "%s /c22?x=1 HTTP/1.1\r\nHost: vp.example\r\n", method)
	if ae.present {
		for _, v := range ae.values {
			fmt.Fprintf(&req, "%s: %s\r\n", aeName, v)
		}
	}
	if method == "POST" {
		req.WriteString("Content-Length: 3\r\n")
	}
	if connClose {
		req.WriteString("Connection: close\r\n")
	}
	req.WriteString("\r\n")
	if method == "POST" {
		req.WriteString("abc")
	}

	calls := 0
	srv := &Server{
		Handler: w.wrap(func(ctx *RequestCtx) {
			calls++
			h.serve(ctx)
		}),
		Logger: vpC22NullLogger{},
	}
	conn := &vpC22Conn{r: bytes.NewReader(req.Bytes())}
	_ = srv.ServeConn(conn)
	res.desc = func() string { return fmt.Sprintf("%s; Accept-Encoding %q; handler %s", w, ae.values, h.describe()) }
	if calls != 1 {
		return fail("handler called %d times for one request: %s", calls, res.desc())
	}
	raw := conn.w.Bytes()
	resp, err := http.ReadResponse(bufio.NewReader(bytes.NewReader(raw)), &http.Request{Method: method})
	if err != nil {
		return fail("response does not parse: %v: %s\n%q", err, res.desc(), vpC22Trunc(raw))
	}
	got, err := io.ReadAll(resp.Body)
	if err != nil {
		return fail("response body is not completely framed: %v (read %d bytes): %s\nhead: %q", err, len(got), res.desc(), vpC22Head(raw))
	}
	res.wire = len(got)
	ces := resp.Header.Values("Content-Encoding")
	res.vary = resp.Header.Values("Vary")
	parsed := vpC22ParseAE(ae.present, ae.values)
	desc := func() string {
		return fmt.Sprintf("%s; Accept-Encoding %q; handler %s -> status %d Content-Encoding %q Vary %q, %d body bytes on the wire", w, ae.values, h.describe(), resp.StatusCode, ces, res.vary, len(got))
	}
	res.desc = desc
	if resp.StatusCode != h.status {
		return fail("status %d, handler set %d: %s", resp.StatusCode, h.status, desc())
	}

	// which supported codings does the request accept (independent parse)?
	anyAccepted := false
	for _, c := range []string{"gzip", "deflate", "br", "zstd"} {
		if w.supports(c) && parsed.accepts(c) == 1 {
			anyAccepted = true
		}
	}
	res.nontrivial = len(h.body) >= minCompressLen && anyAccepted
	res.outcome = "identity"

	switch {
	case h.presetCE != "":
		res.outcome = "preset-untouched"
		if len(ces) != 1 || ces[0] != h.presetCE {
			return fail("handler preset Content-Encoding %q but the response declares %q: %s", h.presetCE, ces, desc())
		}
		if !bytes.Equal(got, h.body) {
			return fail("handler preset Content-Encoding %q (body already encoded) but the body was changed: %d bytes, want the handler's %d (first difference at %d): %s", h.presetCE, len(got), len(h.body), vpC22FirstDiff(got, h.body), desc())
		}
	case len(ces) == 0:
		if !bytes.Equal(got, h.body) {
			return fail("no Content-Encoding declared but body differs from the handler's: %d bytes, want %d (first difference at %d): %s", len(got), len(h.body), vpC22FirstDiff(got, h.body), desc())
		}
	default:
		if len(ces) != 1 {
			return fail("wrapper produced %d Content-Encoding fields: %s", len(ces), desc())
		}
		ce := ces[0]
		res.outcome = "compressed-" + ce
		codec := vpC22DecoderFor(ce)
		if codec == nil {
			return fail("wrapper declared an unexpected Content-Encoding %q: %s", ce, desc())
		}
		// a zstd encoder given no input emits no frame at all; an empty payload stands for an empty body there
		if !(ce == "zstd" && len(got) == 0 && len(h.body) == 0) {
			if msg := vpC22CheckDecodes(codec, got, h.body); msg != "" {
				return fail("response body does not decode to the handler's body: %s: %s", msg, desc())
			}
		}
		switch parsed.accepts(ce) {
		case 0:
			return fail("response uses Content-Encoding %q which the request does not accept: %s", ce, desc())
		case -1:
			res.outcome += "(ambiguous-AE)"
		}
		if !vpC22VaryHasAE(res.vary) {
			return fail("compressed response (Content-Encoding %q) lacks Vary: Accept-Encoding: %s", ce, desc())
		}
		if !w.supports(ce) {
			return fail("%s produced Content-Encoding %q: %s", w.name(), ce, desc())
		}
	}
	return res
}

func TestVP_C22_Handler(t *testing.T) {
	vpC22Zstd0Probe()
	vpC22VaryProbe()
	rapid.Check(t, func(t *rapid.T) {
		h := vpC22GenHandler(t)
		if vpThorough() && rapid.IntRange(0, 60).Draw(t, "hugeBody") == 0 {
			h.body = vpC22Body(rapid.IntRange(0, 4).Draw(t, "hugeKind"), rapid.IntRange(65537, 4<<20).Draw(t, "hugeSize"), rapid.Uint64().Draw(t, "hugeSeed"))
		}
		if strings.Contains(h.presetVary, "X-Accept-Encoding") && vpKnownOpen(vpC22KeyVary) {
			vpExclude(vpC22KeyVary)
			h.presetVary = "Origin"
		}
		ae := vpC22GenAE(t)
		w := vpC22Wrapper{kind: rapid.SampledFrom([]int{0, 1, 1, 1, 2, 2, 2, 3}).Draw(t, "wrapper")}
		w.level = CompressDefaultCompression
		if w.kind != 0 {
			w.level = vpC22GenLevel(t, "level")
		}
		if w.kind >= 2 {
			w.brotliLevel = vpC22GenLevelFor(t, "brotli", "brotliLevel")
		}
		// open finding C22/zstd-level-0-panics: level 0 handed to zstd kills the process; steer away from
		// (level 0 AND a request that mentions zstd) while it is open
		if w.level == 0 && strings.Contains(strings.ToLower(strings.Join(ae.values, ",")), "zstd") && vpC22ZstdLevelExcluded(0) {
			w.level = 1
		}
		method := "GET"
		if rapid.IntRange(0, 5).Draw(t, "post") == 0 {
			method = "POST"
		}
		aeName := rapid.SampledFrom([]string{"Accept-Encoding", "Accept-Encoding", "accept-encoding", "ACCEPT-ENCODING"}).Draw(t, "aeName")
		connClose := rapid.Bool().Draw(t, "connClose")
		k := 1
		if len(h.body) <= 20000 && rapid.IntRange(0, 7).Draw(t, "concurrentConns") == 0 {
			k = rapid.SampledFrom([]int{2, 4, 16}).Draw(t, "k")
			if vpC22HeavyLevel("brotli", w.brotliLevel) && w.kind >= 2 && k > 2 {
				k = 2
			}
		}
		sm := "buffered"
		if h.streamed() {
			sm = "streamed"
		}
		results := make([]vpC22Result, k)
		if k == 1 {
			results[0] = vpC22ServeOne(w, h, ae, method, aeName, connClose)
		} else {
			// k connections served at the same time, each with its own copy of the handler and a distinct body
			sm += "/concurrent"
			var wg sync.WaitGroup
			start := make(chan struct{})
			for i := 0; i < k; i++ {
				hc := *h
				hc.body = append([]byte(nil), h.body...)
				if i > 0 && len(hc.body) > 0 {
					hc.body[len(hc.body)/2] ^= byte(i)
				}
				wg.Add(1)
				go func(i int, hc *vpC22Handler) {
					defer wg.Done()
					<-start
					results[i] = vpC22ServeOne(w, hc, ae, method, aeName, connClose)
				}(i, &hc)
			}
			close(start)
			wg.Wait()
		}
		r0 := results[0]
		vpCase("handler/"+w.name()+"/"+sm+"/"+r0.outcome, r0.nontrivial,
			fmt.Sprintf("%v|%v|%d|%d|%d|%s|%s|%d|%x|%d", w, ae.values, h.mode, len(h.body), h.status, h.contentType, h.presetCE, r0.wire, vpC22Sum(h.body), k), r0.desc)
		if r0.nontrivial && h.presetCE == "" && h.compressibleType() {
			vpExtra("handler_cases_where_compression_was_possible", 1)
			if strings.HasPrefix(r0.outcome, "compressed-") {
				vpExtra("handler_cases_where_compression_was_possible_and_happened", 1)
			}
		}
		for i, r := range results {
			if r.err != "" {
				t.Fatalf("connection %d of %d: %s", i+1, k, r.err)
			}
		}
	})
}

func vpC22Sum(b []byte) uint64 {
	var h uint64 = 1469598103934665603
	for _, c := range b {
		h = (h ^ uint64(c)) * 1099511628211
	}
	return h
}

func (h *vpC22Handler) describe() string {
	return fmt.Sprintf("{status %d, Content-Type %q, preset Content-Encoding %q, preset Vary %q, %s, %d-byte body (sum %x), pieces %v}",
		h.status, h.contentType, h.presetCE, h.presetVary, vpC22Modes[h.mode], len(h.body), vpC22Sum(h.body), h.pieces)
}

func vpC22Trunc(b []byte) []byte {
	if len(b) > 600 {
		return b[:600]
	}
	return b
}

func vpC22Head(b []byte) []byte {
	if i := bytes.Index(b, []byte("\r\n\r\n")); i >= 0 {
		return b[:i]
	}
	return vpC22Trunc(b)
}

// ---------------------------------------------------------------------------------------------
// function level

type vpC22RecWriter struct {
	b      []byte
	writes int
}

func (w *vpC22RecWriter) Write(p []byte) (int, error) {
	w.b = append(w.b, p...)
	w.writes++
	return len(p), nil
}

// via: 0..3 as in vpC22Call; 4 Write*Level(generic io.Writer); 5 Append<Codec>Bytes (default level); 6 Write<Codec> (default level)
func (c *vpC22Codec) runAny(call *vpC22Call) {
	switch call.via {
	case 4:
		var rw vpC22RecWriter
		call.wn, call.werr = c.writeLvl(&rw, call.in, call.level)
		call.out = rw.b
	case 5:
		call.out = c.appendDef(nil, call.in)
	case 6:
		var bb bytes.Buffer
		call.wn, call.werr = c.writeDef(&bb, call.in)
		call.out = bb.Bytes()
	default:
		c.run(call)
	}
}

func (c *vpC22Codec) verifyAny(call *vpC22Call) string {
	if call.via == 4 || call.via == 6 {
		if call.werr != nil {
			return fmt.Sprintf("Write returned error %v", call.werr)
		}
		if call.wn != len(call.in) {
			return fmt.Sprintf("Write returned n=%d for %d input bytes", call.wn, len(call.in))
		}
	}
	if c.name == "zstd" && len(call.in) == 0 {
		// klauspost's encoder emits nothing at all for empty input; the property only asks for a round trip
		// through the counterpart, which maps that to an empty result
		out := call.out
		if call.via == 1 {
			out = bytes.TrimPrefix(out, vpC22Prefix)
		}
		if len(out) == 0 {
			back, err := c.ownDecode(nil, out)
			if err != nil || len(back) != 0 {
				return fmt.Sprintf("AppendUnzstdBytes(empty) = %d bytes, %v", len(back), err)
			}
			return ""
		}
	}
	if call.via >= 4 {
		return vpC22CheckDecodes(c, call.out, call.in)
	}
	return c.verify(call)
}

func TestVP_C22_Codec(t *testing.T) {
	maxBody := vpScale(65536, 4<<20)
	vpC22Zstd0Probe()
	rapid.Check(t, func(t *rapid.T) {
		codecs := vpC22Codecs()
		c := codecs[rapid.IntRange(0, len(codecs)-1).Draw(t, "codec")]
		n := 1
		if rapid.IntRange(0, 4).Draw(t, "concurrent") == 0 {
			n = rapid.SampledFrom([]int{2, 3, 8, 16, 64}).Draw(t, "n")
		}
		var base []byte
		if vpThorough() && rapid.IntRange(0, 40).Draw(t, "huge") == 0 {
			base = vpC22Body(rapid.IntRange(0, 4).Draw(t, "hugeKind"), rapid.IntRange(65537, maxBody).Draw(t, "hugeSize"), rapid.Uint64().Draw(t, "hugeSeed"))
			if n > 4 {
				n = 4
			}
		} else {
			base = vpC22GenBody(t, 65536)
			if n >= 16 && len(base) > 8192 {
				base = base[:8192]
			}
		}
		calls := make([]*vpC22Call, n)
		for i := range calls {
			in := append([]byte(nil), base...)
			if i > 0 && len(in) > 0 {
				in[len(in)/2] ^= byte(i) // distinct inputs per concurrent call
			}
			call := &vpC22Call{in: in, level: vpC22GenLevelFor(t, c.name, "lvl"), via: rapid.IntRange(0, 6).Draw(t, "via")}
			if n > 2 && vpC22HeavyLevel(c.name, call.level) && i >= 2 {
				call.level = 1 // at most two memory-hungry encoders per concurrent case
			}
			if call.via == 6 && c.writeDef == nil {
				call.via = 5
			}
			if c.badLevel != nil && call.via != 5 && call.via != 6 && c.badLevel(call.level) {
				call.level = 1
			}
			calls[i] = call
		}
		if n == 1 {
			c.runAny(calls[0])
		} else {
			var wg sync.WaitGroup
			start := make(chan struct{})
			for _, call := range calls {
				wg.Add(1)
				go func(call *vpC22Call) {
					defer wg.Done()
					<-start
					c.runAny(call)
				}(call)
			}
			close(start)
			wg.Wait()
		}
		first := calls[0]
		lvlClass := "in-range"
		if first.level < -2 || first.level > 11 {
			lvlClass = "out-of-range"
		}
		vpCase(fmt.Sprintf("codec/%s/n=%d/via=%d/level-%s", c.name, n, first.via, lvlClass), len(base) > 0,
			fmt.Sprintf("%s|%d|%d|%d|%d|%x", c.name, n, first.via, first.level, len(base), vpC22Sum(base)),
			func() string {
				return fmt.Sprintf("%s level %d via %d, %d concurrent calls, %d-byte input (sum %x)", c.name, first.level, first.via, n, len(base), vpC22Sum(base))
			})
		for i, call := range calls {
			if msg := c.verifyAny(call); msg != "" {
				t.Fatalf("%s level %d via %d (call %d of %d concurrent, %d input bytes, %d output bytes): %s", c.name, call.level, call.via, i, n, len(call.in), len(call.out), msg)
			}
		}
	})
}

// ---------------------------------------------------------------------------------------------
// child process used by the zstd level-0 probe: the public call either round-trips or kills the child

func TestVP_C22_ZstdLevel0Child(t *testing.T) {
	if os.Getenv("VP_C22_CHILD") != "zstd0" {
		t.Skip("helper for the zstd level-0 probe")
	}
	in := vpC22Body(1, 1000, 7)
	out := AppendZstdBytesLevel(nil, in, CompressZstdSpeedNotSet)
	if msg := vpC22CheckDecodes(vpC22DecoderFor("zstd"), out, in); msg != "" {
		fmt.Println("VPC22-CHILD-BAD " + msg)
		return
	}
	fmt.Println("VPC22-CHILD-OK")
}

// vpC22Zstd0ChildProbe runs AppendZstdBytesLevel(nil, body, 0) in a child process.
// Returns present (the call does not round-trip) and a description.
func vpC22Zstd0ChildProbe() (present bool, detail string, err error) {
	exe, err := os.Executable()
	if err != nil {
		return false, "", err
	}
	cmd := exec.Command(exe, "-test.run", "^TestVP_C22_ZstdLevel0Child$", "-test.count=1", "-test.timeout", "100s")
	cmd.Env = append([]string{}, os.Environ()...)
	cmd.Env = append(cmd.Env, "VP_C22_CHILD=zstd0", "VP_STATS=")
	out, runErr := cmd.CombinedOutput()
	s := string(out)
	switch {
	case strings.Contains(s, "VPC22-CHILD-OK"):
		return false, "AppendZstdBytesLevel(nil, body, 0) round-trips in a child process", nil
	case strings.Contains(s, "VPC22-CHILD-BAD"):
		return true, "AppendZstdBytesLevel(nil, body, 0) in a child process: " + strings.TrimSpace(s[strings.Index(s, "VPC22-CHILD-BAD"):]), nil
	case strings.Contains(s, "panic:"):
		line := s[strings.Index(s, "panic:"):]
		if i := strings.IndexByte(line, '\n'); i >= 0 {
			line = line[:i]
		}
		return true, fmt.Sprintf("AppendZstdBytesLevel(nil, body, CompressZstdSpeedNotSet=0) kills the process: %q raised on a stackless worker goroutine (zstd.go acquireRealZstdWriter); child exit: %v", line, runErr), nil
	}
	if runErr == nil {
		runErr = errors.New("no verdict line")
	}
	return false, "", fmt.Errorf("child probe inconclusive: %v: %s", runErr, strconv.Quote(string(vpC22Trunc(out))))
}
