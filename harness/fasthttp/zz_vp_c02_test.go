package fasthttp

// C02 — unread request bodies never turn into requests.
// R1 carries a body whose content is itself a well-formed request for /smuggled placed exactly where a
// desynchronised parser would resume; the handler reads none / part / all of it (with and without
// StreamRequestBody) or the expectation is rejected; a sentinel request R2 follows on the same
// connection. Oracle: the dispatch log is a sub-sequence of [R1, R2]; nothing else is ever
// dispatched; R2 arrives intact; if R2 is not dispatched the server must have closed the connection.

import (
	"bufio"
	"bytes"
	"fmt"
	"io"
	"net/http"
	"strings"
	"sync"
	"testing"
	"time"

	"pgregory.net/rapid"
)

const (
	vpC02KeyUnreadStream   = "C02/unread-streamed-body-not-drained"
	vpC02KeyContinueReject = "C02/continuehandler-reject-no-close"
)

type vpC02Scn struct {
	Stream      bool
	RMU         bool
	MaxBody     int    // 0 = default
	Chunked     bool
	Pad         int    // bytes of 'A' before the embedded request
	Tail        int    // bytes of 'B' after it
	ChunkAt     []int  // chunk split sizes (chunked only)
	Handler     string // ignore | readn | readall | postbody
	ReadN       int
	Expect      string // "" | wait | immediate
	ContinueH   string // "" | accept | reject   (Server.ContinueHandler)
	ExpectH     string // "" | accept | reject   (Server.ExpectHandler)
	ExpectCode  int
	Garbage     []byte
	Plan        []int
	R2Body      bool
	Proto10     bool // R1 is an HTTP/1.0 request with Connection: keep-alive
	Method      string // R1's method: POST (default), or GET / HEAD / PUT carrying the same framed body
	GetOnly     bool   // Server.GetOnly (only drawn together with GET / HEAD)
	Trailer     string // chunked only: what stands between the last chunk's "0\r\n" and the blank line that ends the body ("" = nothing)
	Tmo         bool   // R1's handler ends by answering through ctx.TimeoutErrorWithCode (the server continues on a fresh RequestCtx)
}

func (s vpC02Scn) r1() string {
	if s.Method == "" {
		return "POST"
	}
	return s.Method
}

func (s vpC02Scn) String() string {
	return fmt.Sprintf("stream=%v rmu=%v maxbody=%d chunked=%v pad=%d tail=%d chunks=%v handler=%s readn=%d expect=%q continueH=%q expectH=%q code=%d garbage=%q plan=%v r2body=%v http10=%v method=%s getonly=%v tmo=%v trailer=%q",
		s.Stream, s.RMU, s.MaxBody, s.Chunked, s.Pad, s.Tail, s.ChunkAt, s.Handler, s.ReadN, s.Expect, s.ContinueH, s.ExpectH, s.ExpectCode, s.Garbage, s.Plan, s.R2Body, s.Proto10, s.r1(), s.GetOnly, s.Tmo, s.Trailer)
}

type vpC02Result struct {
	Disp      []string // "METHOD target"
	R1Read    []byte   // body bytes the R1 handler obtained
	R2Body    []byte
	State     string // closed | idle | timeout  (after all input was delivered)
	Out       []byte
	Returned  bool
	BodySent  bool
}

func vpC02Body(s vpC02Scn) []byte {
	return []byte(strings.Repeat("A", s.Pad) + vpSmuggled + strings.Repeat("B", s.Tail))
}

func vpC02Run(s vpC02Scn) vpC02Result {
	var res vpC02Result
	var mu sync.Mutex
	body := vpC02Body(s)
	srv := &Server{
		StreamRequestBody: s.Stream,
		ReduceMemoryUsage: s.RMU,
		MaxRequestBodySize: s.MaxBody,
		GetOnly:           s.GetOnly,
		Logger:            vpNopLogger{},
		Handler: func(ctx *RequestCtx) {
			d := string(ctx.Method()) + " " + string(ctx.RequestURI())
			var got []byte
			if string(ctx.Path()) == "/r1" {
				switch s.Handler {
				case "ignore":
				case "readn":
					if st := ctx.RequestBodyStream(); st != nil {
						buf := make([]byte, s.ReadN)
						n, _ := io.ReadFull(st, buf)
						got = buf[:n]
					} else {
						b := ctx.Request.Body()
						if len(b) > s.ReadN {
							b = b[:s.ReadN]
						}
						got = append([]byte(nil), b...)
					}
				case "readall":
					if st := ctx.RequestBodyStream(); st != nil {
						got, _ = io.ReadAll(st)
					} else {
						got = append([]byte(nil), ctx.Request.Body()...)
					}
				case "postbody":
					got = append([]byte(nil), ctx.PostBody()...)
				}
			}
			mu.Lock()
			res.Disp = append(res.Disp, d)
			if string(ctx.Path()) == "/r1" {
				res.R1Read = got
			} else if string(ctx.Path()) == "/r2" {
				res.R2Body = append([]byte(nil), ctx.PostBody()...)
			}
			mu.Unlock()
			ctx.SetBodyString("done " + d)
			if s.Tmo && string(ctx.Path()) == "/r1" {
				ctx.TimeoutErrorWithCode("timed out "+d, StatusServiceUnavailable)
			}
		},
	}
	if s.ContinueH != "" {
		ok := s.ContinueH == "accept"
		srv.ContinueHandler = func(h *RequestHeader) bool { return ok }
	}
	if s.ExpectH != "" {
		code := StatusContinue
		if s.ExpectH == "reject" {
			code = s.ExpectCode
		}
		srv.ExpectHandler = func(ctx *RequestCtx) int { return code }
	}
	var head bytes.Buffer
	if s.Proto10 {
		head.WriteString(s.r1() + " /r1 HTTP/1.0\r\nHost: h\r\nConnection: keep-alive\r\n")
	} else {
		head.WriteString(s.r1() + " /r1 HTTP/1.1\r\nHost: h\r\n")
	}
	var wire []byte
	if s.Chunked {
		head.WriteString("Transfer-Encoding: chunked\r\n")
		rest := body
		var cb bytes.Buffer
		for i := 0; len(rest) > 0; i++ {
			n := len(rest)
			if i < len(s.ChunkAt) && s.ChunkAt[i] < n {
				n = s.ChunkAt[i]
			}
			fmt.Fprintf(&cb, "%x\r\n", n)
			cb.Write(rest[:n])
			cb.WriteString("\r\n")
			rest = rest[n:]
		}
		cb.WriteString("0\r\n" + s.Trailer + "\r\n")
		wire = cb.Bytes()
	} else {
		fmt.Fprintf(&head, "Content-Length: %d\r\n", len(body))
		wire = body
	}
	if s.Expect != "" {
		head.WriteString("Expect: 100-continue\r\n")
	}
	head.WriteString("\r\n")
	r2 := "GET /r2 HTTP/1.1\r\nHost: h\r\n\r\n"
	if s.R2Body {
		r2 = "POST /r2 HTTP/1.1\r\nHost: h\r\nContent-Length: 7\r\n\r\nr2-body"
	}
	if s.R2Body && s.GetOnly {
		r2 = "GET /r2 HTTP/1.1\r\nHost: h\r\nContent-Length: 7\r\n\r\nr2-body"
	}
	w := vpNewWire(nil, s.Plan, false)
	done := make(chan struct{})
	go func() { srv.ServeConn(w); close(done) }()
	if s.Expect == "wait" {
		w.Feed(head.Bytes())
		// wait for an interim or final response head
		w.WaitOut(20*time.Second, func(out []byte) bool { return bytes.Contains(out, []byte("\r\n\r\n")) })
		out := w.Out()
		if bytes.HasPrefix(out, []byte("HTTP/1.1 100")) || bytes.HasPrefix(out, []byte("HTTP/1.0 100")) {
			w.Feed(wire)
			res.BodySent = true
		}
	} else {
		w.Feed(head.Bytes())
		w.Feed(wire)
		res.BodySent = true
	}
	w.Feed([]byte(r2))
	w.Feed(s.Garbage)
	res.State = w.WaitIdleOrClosed(20 * time.Second)
	w.FinishInput()
	select {
	case <-done:
		res.Returned = true
	case <-time.After(20 * time.Second):
		w.Close()
		select {
		case <-done:
		case <-time.After(5 * time.Second):
		}
	}
	res.Out = w.Out()
	mu.Lock()
	defer mu.Unlock()
	res.Disp = append([]string(nil), res.Disp...)
	return res
}

func vpC02Oracle(s vpC02Scn, r vpC02Result) string {
	if !r.Returned {
		return "ServeConn did not return within 20s after client EOF"
	}
	if r.State == "timeout" {
		return "server neither closed nor went idle within 20s"
	}
	r2 := "GET /r2"
	if s.R2Body && !s.GetOnly {
		r2 = "POST /r2"
	}
	r1 := s.r1() + " /r1"
	allowed := [][]string{{}, {r1}, {r1, r2}, {r2}}
	ok := false
	for _, a := range allowed {
		if strings.Join(a, "|") == strings.Join(r.Disp, "|") {
			ok = true
		}
	}
	if !ok {
		return fmt.Sprintf("dispatch log %q is not a sub-sequence of the requests sent [%s, %s]: body bytes were parsed as a request", r.Disp, r1, r2)
	}
	r2Dispatched := len(r.Disp) > 0 && r.Disp[len(r.Disp)-1] == r2
	if r2Dispatched && s.R2Body && string(r.R2Body) != "r2-body" {
		return fmt.Sprintf("R2 was dispatched with body %q, sent %q", r.R2Body, "r2-body")
	}
	if !r2Dispatched && r.State != "closed" {
		return fmt.Sprintf("R2 was sent completely but never dispatched, and the server kept the connection open (state %s): it did not resume at the end of R1's framed body", r.State)
	}
	// body bytes handed to the R1 handler must be a prefix of the real body
	// (Request.Body() over a stream reports a read error in-band, as the error's text: with a malformed trailer
	// section that text is what PostBody() yields, and it is no body byte)
	inBandErr := s.Stream && s.Handler == "postbody" && s.Trailer != "" && bytes.HasPrefix(r.R1Read, []byte("error when reading"))
	if len(r.R1Read) > 0 && !inBandErr && !bytes.HasPrefix(vpC02Body(s), r.R1Read) {
		return fmt.Sprintf("R1 handler read %s which is not a prefix of the body sent", vpQuote(r.R1Read, 80))
	}
	// wire output: at most one final response per request sent
	br := bufio.NewReader(bytes.NewReader(r.Out))
	finals := 0
	// a 400 can be a legitimate answer only when something malformed was sent (trailing garbage, a trailer section
	// that is none) or the configuration turns a well-formed request down with it (GetOnly)
	wellFormedTrailer := s.Trailer == "" || s.Trailer == "X-Checksum: abc\r\n" || s.Trailer == "X-A: 1\r\nX-B: 2\r\n"
	total400 := s.Pad + len(vpSmuggled) + s.Tail
	r1Accepted := len(r.Disp) > 0 && r.Disp[0] == r1 // the server took R1 for well-formed (it ran its handler)
	mayBe400 := len(s.Garbage) > 0 || !wellFormedTrailer || s.GetOnly || !r.BodySent || !r1Accepted ||
		(s.MaxBody > 0 && s.MaxBody < total400) || (s.Proto10 && s.Chunked)
	for {
		if _, err := br.Peek(1); err != nil {
			break
		}
		rm := "POST"
		if s.r1() == "HEAD" && finals == 0 && len(r.Disp) > 0 && r.Disp[0] == r1 {
			rm = "HEAD" // the first final response answers the dispatched HEAD request: no body follows its head
		}
		resp, err := http.ReadResponse(br, &http.Request{Method: rm})
		if err != nil {
			return fmt.Sprintf("server output does not parse as responses: %v (%s)", err, vpQuote(r.Out, 300))
		}
		io.Copy(io.Discard, resp.Body)
		if resp.StatusCode >= 200 {
			finals++
		}
		if resp.StatusCode == StatusBadRequest && !mayBe400 {
			return fmt.Sprintf("the server ran R1's handler and then answered 400, although R2 is well-formed and nothing follows it: bytes that belong to R1's body were parsed as a request head (%s)", vpQuote(r.Out, 400))
		}
	}
	maxFinals := 2
	if len(s.Garbage) > 0 {
		maxFinals = 3 // the trailing garbage may earn its own error response
	}
	if finals > maxFinals {
		return fmt.Sprintf("%d final responses for 2 requests", finals)
	}
	return ""
}

var vpC02ProbeOnce sync.Once

func vpC02Probes() {
	vpC02ProbeOnce.Do(func() {
		s := vpC02Scn{Stream: true, Pad: 8192, Tail: 10, Handler: "ignore"}
		r := vpC02Run(s)
		vpProbe(vpC02KeyUnreadStream, vpC02Oracle(s, r) != "", fmt.Sprintf("StreamRequestBody, CL body with a request at offset 8192, handler ignores body: dispatched %q state=%s", r.Disp, r.State))
		s2 := vpC02Scn{Pad: 0, Tail: 0, Handler: "ignore", Expect: "immediate", ContinueH: "reject"}
		r2 := vpC02Run(s2)
		s3 := vpC02Scn{Pad: 0, Tail: 0, Handler: "ignore", Expect: "wait", ContinueH: "reject"}
		r3 := vpC02Run(s3)
		vpProbe(vpC02KeyContinueReject, vpC02Oracle(s2, r2) != "" || vpC02Oracle(s3, r3) != "",
			fmt.Sprintf("ContinueHandler rejects: body sent immediately -> dispatched %q state=%s; client waits -> dispatched %q state=%s", r2.Disp, r2.State, r3.Disp, r3.State))
	})
}

func vpC02Gen(t *rapid.T) vpC02Scn {
	var s vpC02Scn
	s.Stream = rapid.Bool().Draw(t, "stream")
	s.RMU = rapid.Bool().Draw(t, "rmu")
	s.Chunked = rapid.Bool().Draw(t, "chunked")
	s.Pad = rapid.SampledFrom([]int{0, 1, 5, 100, 4095, 4096, 8191, 8192, 8193, 8192 - len(vpSmuggled), 12000, 16384, 20000}).Draw(t, "pad")
	if rapid.IntRange(0, 4).Draw(t, "anypad") == 0 {
		s.Pad = rapid.IntRange(0, 20000).Draw(t, "padv")
	}
	s.Tail = rapid.SampledFrom([]int{0, 0, 1, 50, 9000}).Draw(t, "tail")
	total := s.Pad + len(vpSmuggled) + s.Tail
	switch rapid.IntRange(0, 3).Draw(t, "maxbody") {
	case 0:
		s.MaxBody = 0
	case 1:
		s.MaxBody = total + rapid.IntRange(-1, 1).Draw(t, "mbdelta")
	case 2:
		s.MaxBody = rapid.SampledFrom([]int{1, 100, 8192, 9000}).Draw(t, "mbv")
	default:
		s.MaxBody = 1 << 20
	}
	if s.MaxBody < 0 {
		s.MaxBody = 0
	}
	if s.Chunked {
		n := rapid.IntRange(0, 4).Draw(t, "nchunks")
		for i := 0; i < n; i++ {
			// chunk boundaries exactly at / around the embedded request are the interesting ones
			s.ChunkAt = append(s.ChunkAt, rapid.SampledFrom([]int{1, 4, s.Pad + 1, s.Pad, s.Pad + len(vpSmuggled), 100, 8192, 5000}).Draw(t, "chunkat"))
			if s.ChunkAt[i] < 1 {
				s.ChunkAt[i] = 1
			}
		}
	}
	if s.Chunked && rapid.IntRange(0, 2).Draw(t, "usetrailer") == 0 {
		// the trailer section belongs to R1's framed body: well-formed, or something a trailer section must not be
		// (then the message is malformed and the connection may only be closed) - in particular a request
		s.Trailer = rapid.SampledFrom([]string{
			"X-Checksum: abc\r\n",
			"X-A: 1\r\nX-B: 2\r\n",
			strings.TrimSuffix(vpSmuggled, "\r\n"),
			"GET /smuggled HTTP/1.1\r\n",
			"Host: h\r\n",
			"Content-Length: 5\r\n",
			"X-T: a\x00b\r\n",
			"no colon here\r\n",
			"X-T: v\r\n" + strings.TrimSuffix(vpSmuggled, "\r\n"),
		}).Draw(t, "trailer")
	}
	s.Handler = rapid.SampledFrom([]string{"ignore", "readn", "readn", "readall", "postbody"}).Draw(t, "handler")
	if s.Handler == "readn" {
		s.ReadN = rapid.SampledFrom([]int{0, 1, s.Pad, s.Pad - 1, s.Pad + 1, s.Pad + len(vpSmuggled), 8192, total - 1, total}).Draw(t, "readn")
		if s.ReadN < 0 {
			s.ReadN = 0
		}
	}
	if rapid.IntRange(0, 2).Draw(t, "useexpect") == 0 {
		s.Expect = rapid.SampledFrom([]string{"wait", "immediate"}).Draw(t, "expect")
		switch rapid.IntRange(0, 4).Draw(t, "expecthandler") {
		case 0:
		case 1:
			s.ContinueH = "accept"
		case 2:
			s.ContinueH = "reject"
		case 3:
			s.ExpectH = "accept"
		default:
			s.ExpectH = "reject"
			s.ExpectCode = rapid.SampledFrom([]int{417, 403, 413, 200}).Draw(t, "expectcode")
		}
	}
	if rapid.IntRange(0, 5).Draw(t, "garbage") == 0 {
		s.Garbage = []byte(rapid.SampledFrom([]string{"xx", "\r\n", "GET /smuggled HTTP/1.1\r\n"}).Draw(t, "garbagev"))
	}
	s.R2Body = rapid.Bool().Draw(t, "r2body")
	s.Proto10 = rapid.IntRange(0, 4).Draw(t, "http10") == 0
	// a body is framed by Content-Length / Transfer-Encoding whatever the method is
	s.Tmo = rapid.IntRange(0, 4).Draw(t, "tmo") == 0
	s.Method = rapid.SampledFrom([]string{"POST", "POST", "POST", "PUT", "GET", "GET", "HEAD"}).Draw(t, "method")
	if s.Method == "GET" || s.Method == "HEAD" {
		s.GetOnly = rapid.Bool().Draw(t, "getonly")
	}
	s.Plan = vpGenSplit(t, total, nil)
	return s
}

func vpC02Excluded(s vpC02Scn) string {
	if s.Expect != "" && s.ContinueH == "reject" && vpKnownOpen(vpC02KeyContinueReject) {
		return vpC02KeyContinueReject
	}
	if s.Stream && vpKnownOpen(vpC02KeyUnreadStream) {
		// the class: a streamed body that the handler does not read to its end
		total := s.Pad + len(vpSmuggled) + s.Tail
		unread := s.Handler == "ignore" || (s.Handler == "readn" && s.ReadN < total)
		rejected := s.Expect != "" && (s.ContinueH == "reject" || s.ExpectH == "reject")
		if unread && !rejected {
			return vpC02KeyUnreadStream
		}
	}
	return ""
}

func TestVP_C02_UnreadBodies(t *testing.T) {
	vpC02Probes()
	rapid.Check(t, func(t *rapid.T) {
		var s vpC02Scn
		for try := 0; ; try++ {
			s = vpC02Gen(t)
			k := vpC02Excluded(s)
			if k == "" {
				break
			}
			vpExclude(k)
			if try > 30 {
				s.Stream = false
				s.ContinueH = ""
				break
			}
		}
		r := vpC02Run(s)
		total := s.Pad + len(vpSmuggled) + s.Tail
		unread := s.Handler == "ignore" || (s.Handler == "readn" && s.ReadN < total)
		rejected := s.Expect != "" && (s.ContinueH == "reject" || s.ExpectH == "reject")
		class := fmt.Sprintf("stream=%v/chunked=%v/", s.Stream, s.Chunked)
		if s.Trailer != "" {
			class += "trailer/"
		}
		if s.Proto10 {
			class = "http10/" + class
		}
		switch {
		case rejected:
			class += "expect-rejected-" + s.Expect
		case unread:
			class += "unread"
		default:
			class += "read"
		}
		vpCase(class, unread || rejected, s.String(), func() string { return s.String() + fmt.Sprintf(" -> dispatched %q state=%s", r.Disp, r.State) })
		if msg := vpC02Oracle(s, r); msg != "" {
			t.Fatalf("C02 violation: %s\nscenario: %s\ndispatched=%q state=%s bodySent=%v\nout=%s", msg, s, r.Disp, r.State, r.BodySent, vpQuote(r.Out, 600))
		}
	})
}
