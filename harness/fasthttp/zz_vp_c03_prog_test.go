package fasthttp

// C03 — handler programs: a small instruction set over RequestCtx/Response, an executor that runs a
// program inside a real handler, and a model interpreter that predicts the observable response from
// the documented meaning of each call (never from fasthttp's serialisation code).

import (
	"bufio"
	"bytes"
	"fmt"
	"io"
	"net/textproto"
	"os"
	"strconv"
	"strings"
	"sync"
)

type vpC03KV struct{ K, V string }

type vpC03Cookie struct {
	K, V, Path string
	HTTPOnly   bool
}

// vpC03StreamSpec describes a body stream handed to SetBodyStream / SetBodyStreamWriter.
type vpC03StreamSpec struct {
	Content  []byte // what the stream yields before io.EOF
	Declared int    // size argument of SetBodyStream (-1 = unknown)
	Policy   string // exact | unknown | short (yields fewer than declared) | long (yields more than declared) | writer
	Reader   int    // see vpC03ReaderNames
	Plan     []int  // sizes of successive Read results for the harness readers (nil: as much as fits)
	ZeroRead bool   // one (0, nil) result before the first data
	EOFData  bool   // the last data arrives together with io.EOF
	LimitN   int    // Reader == limited: N of the io.LimitedReader (<= len(underlying))
	Under    []byte // Reader == limited: bytes of the underlying reader (Content = Under[:LimitN])
	Parts    [][]byte // writer: successive Write calls
	Flush    []bool   // writer: Flush after the i-th Write
}

var vpC03ReaderNames = []string{"plain", "bytes.Reader", "bytes.Buffer", "closer", "limited", "writerto-on", "writerto-off", "os.File", "SendFile"}

const (
	vpC03RdPlain = iota
	vpC03RdBytesReader
	vpC03RdBytesBuffer
	vpC03RdCloser
	vpC03RdLimited
	vpC03RdWriterToOn
	vpC03RdWriterToOff
	vpC03RdFile
	vpC03RdSendFile
)

type vpC03Op struct {
	Kind   string
	Code   int
	K, V   string
	B      []byte
	Flag   bool
	Cookie vpC03Cookie
	Stream *vpC03StreamSpec
}

type vpC03Prog struct {
	Ops      []vpC03Op
	Compress int // 0 none, 1 CompressHandler, 2 CompressHandlerLevel(BestSpeed), 3 CompressHandlerBrotliLevel
}

func vpC03Short(b []byte) string {
	if len(b) <= 24 {
		return fmt.Sprintf("%q", b)
	}
	return fmt.Sprintf("%q..(%d bytes)", b[:16], len(b))
}

func (o vpC03Op) String() string {
	switch o.Kind {
	case "status", "handclint":
		return fmt.Sprintf("%s(%d)", o.Kind, o.Code)
	case "msg", "ctype", "handcl", "handte", "del", "conn":
		return fmt.Sprintf("%s(%q)", o.Kind, o.V+o.K)
	case "set", "add":
		return fmt.Sprintf("%s(%q,%q)", o.Kind, o.K, o.V)
	case "trailer":
		return fmt.Sprintf("trailer(%q,%q,declareFirst=%v)", o.K, o.V, o.Flag)
	case "cookie":
		return fmt.Sprintf("cookie(%+v)", o.Cookie)
	case "setbody", "setbodystring", "append", "appendstring", "raw", "write", "writestring":
		return fmt.Sprintf("%s(%s)", o.Kind, vpC03Short(o.B))
	case "error":
		return fmt.Sprintf("error(%q,%d)", o.V, o.Code)
	case "success":
		return fmt.Sprintf("success(%q,%s)", o.V, vpC03Short(o.B))
	case "stream":
		s := o.Stream
		return fmt.Sprintf("stream(reader=%s,yields=%d,declared=%d,%s,plan=%v,zero=%v,eofdata=%v,content=%s)", vpC03ReaderNames[s.Reader], len(s.Content), s.Declared, s.Policy, s.Plan, s.ZeroRead, s.EOFData, vpC03Short(s.Content))
	case "sw":
		s := o.Stream
		var sizes []string
		for i, p := range s.Parts {
			f := ""
			if s.Flush[i] {
				f = "F"
			}
			sizes = append(sizes, strconv.Itoa(len(p))+f)
		}
		return fmt.Sprintf("streamwriter(parts=[%s],total=%d)", strings.Join(sizes, " "), len(s.Content))
	}
	return o.Kind
}

func (p vpC03Prog) String() string {
	var parts []string
	for _, o := range p.Ops {
		parts = append(parts, o.String())
	}
	s := strings.Join(parts, "; ")
	if p.Compress != 0 {
		s = fmt.Sprintf("compress#%d{%s}", p.Compress, s)
	}
	return s
}

// ---------------------------------------------------------------------------------------------
// model

type vpC03Model struct {
	Status   int
	Msg      string
	HasMsg   bool
	Fields   []vpC03KV // canonical names, in call order
	CType    string
	HasCType bool
	Cookies  []vpC03Cookie
	IsStream bool
	Body     []byte
	Raw      bool
	Stream   *vpC03StreamSpec
	Cands    []int // sizes the handler declared for the current stream (SetBodyStream argument, later hand-set Content-Length values)
	Skip     bool
	Close    bool
	Trailers []vpC03KV

	UsedStream  bool
	UsedFraming bool
	AppendedToRaw bool

	// Mirror of fasthttp's size bookkeeping (ResponseHeader.contentLength / the Transfer-Encoding field kept in
	// the header list), including its rule "SetContentLength is ignored while the status is 204/304".
	// NEVER used by the oracle: it only delimits the input classes of the open known findings so that they
	// can be excluded from generation (see vpC03KnownClass).
	implCL      int
	implTE      bool
	implCLBytes bool // a Content-Length line will be written
}

// implSetCL mirrors ResponseHeader.SetContentLength.
func (m *vpC03Model) implSetCL(n int) {
	if m.Status == 204 || m.Status == 304 {
		return
	}
	m.implCL = n
	if n >= 0 {
		m.implTE = false
		m.implCLBytes = true
	} else if n == -1 {
		m.implTE = true
		m.implCLBytes = false
	}
}

func vpC03NewModel() *vpC03Model { return &vpC03Model{Status: 200} }

func (m *vpC03Model) reset() {
	us, uf := m.UsedStream, m.UsedFraming
	*m = vpC03Model{Status: 200, UsedStream: us, UsedFraming: uf}
}

func vpC03Canon(k string) string { return textproto.CanonicalMIMEHeaderKey(k) }

func (m *vpC03Model) setBytes(b []byte) {
	m.IsStream, m.Stream, m.Cands = false, nil, nil
	m.Body = append([]byte(nil), b...)
	m.Raw = false
}

func (m *vpC03Model) apply(o vpC03Op) {
	switch o.Kind {
	case "status":
		m.Status = o.Code
	case "msg":
		m.Msg, m.HasMsg = o.V, true
	case "set": // documented: sets the header; replaces the (first) existing value of that name
		k := vpC03Canon(o.K)
		for i := range m.Fields {
			if m.Fields[i].K == k {
				m.Fields[i].V = o.V
				return
			}
		}
		m.Fields = append(m.Fields, vpC03KV{k, o.V})
	case "add":
		m.Fields = append(m.Fields, vpC03KV{vpC03Canon(o.K), o.V})
	case "del":
		k := vpC03Canon(o.K)
		out := m.Fields[:0:0]
		for _, f := range m.Fields {
			if f.K != k {
				out = append(out, f)
			}
		}
		m.Fields = out
	case "ctype":
		m.CType, m.HasCType = o.V, true
	case "cookie":
		for i := range m.Cookies {
			if m.Cookies[i].K == o.Cookie.K {
				m.Cookies[i] = o.Cookie
				return
			}
		}
		m.Cookies = append(m.Cookies, o.Cookie)
	case "setbody", "setbodystring":
		m.setBytes(o.B)
	case "append", "appendstring", "write", "writestring":
		// only generated while the body is not a stream
		if m.Raw {
			m.AppendedToRaw = true
		}
		m.Body = append(append([]byte(nil), m.Body...), o.B...)
		m.Raw = false
	case "raw":
		m.setBytes(o.B)
		m.Raw = true
	case "resetbody":
		m.setBytes(nil)
		m.Body = nil
	case "stream":
		m.IsStream, m.Stream, m.Body, m.Raw = true, o.Stream, nil, false
		m.Cands = []int{o.Stream.Declared}
		if o.Stream.Reader == vpC03RdLimited && o.Stream.Declared < 0 {
			// an *io.LimitedReader announces its own size; both framings carry the same body
			m.Cands = []int{-1, o.Stream.LimitN}
		}
		m.UsedStream = true
		m.implSetCL(o.Stream.Declared)
	case "sw":
		m.IsStream, m.Stream, m.Body, m.Raw = true, o.Stream, nil, false
		m.Cands = []int{-1}
		m.UsedStream = true
		m.implSetCL(-1)
	case "skip":
		m.Skip = true
	case "close":
		m.Close = true
		m.UsedFraming = true
	case "conn":
		m.UsedFraming = true
		if o.V == "close" {
			m.Close = true
		} else {
			m.Close = false
		}
	case "handcl":
		m.UsedFraming = true
		if n, err := strconv.Atoi(o.V); err == nil && n >= 0 {
			if m.IsStream {
				m.Cands = append(m.Cands, n)
			}
			m.implCL = n
			m.implCLBytes = true
		}
	case "handclint":
		m.UsedFraming = true
		if m.IsStream {
			if o.Code >= 0 {
				m.Cands = append(m.Cands, o.Code)
			} else {
				m.Cands = append(m.Cands, -1)
				if m.Stream.Reader == vpC03RdLimited {
					// unknown size + *io.LimitedReader: the reader's own N is an acceptable Content-Length
					m.Cands = append(m.Cands, m.Stream.LimitN)
				}
			}
		}
		m.implSetCL(o.Code)
	case "handte":
		m.UsedFraming = true
	case "immflush":
	case "error":
		m.reset()
		m.Status = o.Code
		m.CType, m.HasCType = "text/plain; charset=utf-8", true
		m.Body = []byte(o.V)
	case "notfound":
		m.reset()
		m.Status = 404
		m.Body = []byte("404 Page not found")
	case "notmodified":
		m.reset()
		m.Status = 304
	case "success":
		m.CType, m.HasCType = o.V, true
		m.setBytes(o.B)
	case "trailer":
		m.Trailers = append(m.Trailers, vpC03KV{vpC03Canon(o.K), o.V})
	default:
		panic("vpC03: unknown op " + o.Kind)
	}
}

func vpC03RunModel(p vpC03Prog) *vpC03Model {
	m := vpC03NewModel()
	for _, o := range p.Ops {
		m.apply(o)
	}
	return m
}

// ---------------------------------------------------------------------------------------------
// executor

type vpC03Env struct {
	mu    sync.Mutex
	wg    sync.WaitGroup // stream writers started
	files []string
	errs  []string
}

func (e *vpC03Env) note(format string, a ...any) {
	e.mu.Lock()
	e.errs = append(e.errs, fmt.Sprintf(format, a...))
	e.mu.Unlock()
}

type vpC03Reader struct {
	data     []byte
	off      int
	plan     []int
	pi       int
	zeroRead bool
	eofData  bool
}

func (r *vpC03Reader) Read(p []byte) (int, error) {
	if r.zeroRead {
		r.zeroRead = false
		return 0, nil
	}
	if r.off >= len(r.data) {
		return 0, io.EOF
	}
	n := len(p)
	if len(r.plan) > 0 {
		k := r.plan[r.pi%len(r.plan)]
		r.pi++
		if k > 0 && k < n {
			n = k
		}
	}
	if n > len(r.data)-r.off {
		n = len(r.data) - r.off
	}
	copy(p, r.data[r.off:r.off+n])
	r.off += n
	if r.off >= len(r.data) && r.eofData && n > 0 {
		return n, io.EOF
	}
	return n, nil
}

type vpC03ReadCloser struct {
	vpC03Reader
	closed int
}

func (r *vpC03ReadCloser) Close() error { r.closed++; return nil }

// vpC03WriterToReader implements fasthttp's BodyWriterTo.
type vpC03WriterToReader struct {
	vpC03Reader
	supports bool
}

func (r *vpC03WriterToReader) SupportsBodyWriteTo() bool { return r.supports }
func (r *vpC03WriterToReader) WriteTo(w io.Writer) (int64, error) {
	var total int64
	buf := make([]byte, 1500)
	for {
		n, err := r.Read(buf)
		if n > 0 {
			m, werr := w.Write(buf[:n])
			total += int64(m)
			if werr != nil {
				return total, werr
			}
		}
		if err == io.EOF {
			return total, nil
		}
		if err != nil {
			return total, err
		}
	}
}

func vpC03MakeReader(s *vpC03StreamSpec, env *vpC03Env) (io.Reader, string, error) {
	base := vpC03Reader{data: s.Content, plan: s.Plan, zeroRead: s.ZeroRead, eofData: s.EOFData}
	switch s.Reader {
	case vpC03RdPlain:
		return &base, "", nil
	case vpC03RdBytesReader:
		return bytes.NewReader(s.Content), "", nil
	case vpC03RdBytesBuffer:
		return bytes.NewBuffer(append([]byte(nil), s.Content...)), "", nil
	case vpC03RdCloser:
		return &vpC03ReadCloser{vpC03Reader: base}, "", nil
	case vpC03RdLimited:
		base.data = s.Under
		return &io.LimitedReader{R: &base, N: int64(s.LimitN)}, "", nil
	case vpC03RdWriterToOn:
		return &vpC03WriterToReader{vpC03Reader: base, supports: true}, "", nil
	case vpC03RdWriterToOff:
		return &vpC03WriterToReader{vpC03Reader: base, supports: false}, "", nil
	case vpC03RdFile, vpC03RdSendFile:
		f, err := os.CreateTemp("", "vpc03-*.bin")
		if err != nil {
			return nil, "", err
		}
		name := f.Name()
		env.mu.Lock()
		env.files = append(env.files, name)
		env.mu.Unlock()
		if _, err := f.Write(s.Content); err != nil {
			f.Close()
			return nil, "", err
		}
		if s.Reader == vpC03RdSendFile {
			f.Close()
			return nil, name, nil // caller uses Response.SendFile(name)
		}
		if _, err := f.Seek(0, io.SeekStart); err != nil {
			f.Close()
			return nil, "", err
		}
		return f, name, nil
	}
	panic("vpC03: unknown reader kind")
}

func vpC03Exec(ctx *RequestCtx, ops []vpC03Op, env *vpC03Env) {
	for _, o := range ops {
		switch o.Kind {
		case "status":
			ctx.SetStatusCode(o.Code)
		case "msg":
			ctx.Response.Header.SetStatusMessage([]byte(o.V))
		case "set":
			if o.Flag {
				ctx.Response.Header.SetBytesKV([]byte(o.K), []byte(o.V))
			} else {
				ctx.Response.Header.Set(o.K, o.V)
			}
		case "add":
			if o.Flag {
				ctx.Response.Header.AddBytesKV([]byte(o.K), []byte(o.V))
			} else {
				ctx.Response.Header.Add(o.K, o.V)
			}
		case "del":
			ctx.Response.Header.Del(o.K)
		case "ctype":
			ctx.SetContentType(o.V)
		case "cookie":
			var c Cookie
			c.SetKey(o.Cookie.K)
			c.SetValue(o.Cookie.V)
			if o.Cookie.Path != "" {
				c.SetPath(o.Cookie.Path)
			}
			c.SetHTTPOnly(o.Cookie.HTTPOnly)
			ctx.Response.Header.SetCookie(&c)
		case "setbody":
			ctx.SetBody(o.B)
		case "setbodystring":
			ctx.SetBodyString(string(o.B))
		case "append":
			ctx.Response.AppendBody(o.B)
		case "appendstring":
			ctx.Response.AppendBodyString(string(o.B))
		case "write":
			ctx.Write(o.B)
		case "writestring":
			ctx.WriteString(string(o.B))
		case "raw":
			ctx.Response.SetBodyRaw(append([]byte(nil), o.B...))
		case "resetbody":
			ctx.ResetBody()
		case "stream":
			r, name, err := vpC03MakeReader(o.Stream, env)
			if err != nil {
				env.note("harness: cannot build reader: %v", err)
				continue
			}
			if o.Stream.Reader == vpC03RdSendFile {
				if err := ctx.Response.SendFile(name); err != nil {
					env.note("harness: SendFile: %v", err)
				}
				continue
			}
			ctx.SetBodyStream(r, o.Stream.Declared)
		case "sw":
			s := o.Stream
			env.wg.Add(1)
			ctx.SetBodyStreamWriter(func(w *bufio.Writer) {
				defer env.wg.Done()
				for i, p := range s.Parts {
					if _, err := w.Write(p); err != nil {
						return
					}
					if s.Flush[i] {
						if err := w.Flush(); err != nil {
							return
						}
					}
				}
			})
		case "skip":
			ctx.Response.SkipBody = true
		case "close":
			ctx.SetConnectionClose()
		case "conn":
			ctx.Response.Header.Set("Connection", o.V)
		case "handcl":
			if o.Flag {
				ctx.Response.Header.Add("Content-Length", o.V)
			} else {
				ctx.Response.Header.Set("Content-Length", o.V)
			}
		case "handclint":
			ctx.Response.Header.SetContentLength(o.Code)
		case "handte":
			if o.Flag {
				ctx.Response.Header.Add("Transfer-Encoding", o.V)
			} else {
				ctx.Response.Header.Set("Transfer-Encoding", o.V)
			}
		case "immflush":
			ctx.Response.ImmediateHeaderFlush = true
		case "error":
			ctx.Error(o.V, o.Code)
		case "notfound":
			ctx.NotFound()
		case "notmodified":
			ctx.NotModified()
		case "success":
			ctx.Success(o.V, o.B)
		case "trailer":
			if o.Flag {
				if err := ctx.Response.Header.AddTrailer(o.K); err != nil {
					env.note("harness: AddTrailer(%q): %v", o.K, err)
				}
				ctx.Response.Header.Set(o.K, o.V)
			} else {
				ctx.Response.Header.Set(o.K, o.V)
				if err := ctx.Response.Header.AddTrailer(o.K); err != nil {
					env.note("harness: AddTrailer(%q): %v", o.K, err)
				}
			}
		default:
			panic("vpC03: unknown op " + o.Kind)
		}
	}
}
