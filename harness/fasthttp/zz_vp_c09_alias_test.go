package fasthttp

// C09: what a parsed head yields is decided by the head's bytes - also later. The parser works on the
// bufio.Reader's buffer; everything it hands out must be its own copy. After the head has been parsed
// the rest of the connection is read through the same reader (as the server does for the body and the
// next requests), which overwrites the buffer the head was parsed from; the fields the header object
// yields afterwards must be the ones it yielded right after parsing.

import (
	"bufio"
	"bytes"
	"fmt"
	"io"
	"testing"

	"pgregory.net/rapid"
)

func vpC09ReqView(rh *RequestHeader) string {
	return fmt.Sprintf("%s %q %s host=%q ct=%q ua=%q cl=%d close=%v hdr=%q", rh.Method(), rh.RequestURI(), rh.Protocol(), rh.Host(), rh.ContentType(), rh.UserAgent(),
		rh.ContentLength(), rh.ConnectionClose(), rh.String())
}

func vpC09RespView(rh *ResponseHeader) string {
	// the fields the parsed header holds (VisitAll), not the serialised form: that one adds the current
	// date as a default, which changes while the test runs
	var fields []string
	rh.VisitAll(func(k, v []byte) {
		if string(k) == HeaderDate && len(rh.Peek(HeaderDate)) == 0 {
			return
		}
		fields = append(fields, string(k)+": "+string(v))
	})
	return fmt.Sprintf("%d %q %s ct=%q server=%q cl=%d close=%v date=%q fields=%q", rh.StatusCode(), rh.StatusMessage(), rh.Protocol(), rh.ContentType(), rh.Server(), rh.ContentLength(),
		rh.ConnectionClose(), rh.Peek(HeaderDate), fields)
}

func TestVP_C09_FieldsSurviveLaterReads(t *testing.T) {
	rapid.Check(t, func(t *rapid.T) {
		h := vpC09GenHead(t)
		bufSize := rapid.SampledFrom([]int{256, 512, 4096}).Draw(t, "bufio")
		if len(h.raw) > bufSize {
			t.Skip("head larger than the read buffer")
		}
		// continuation: at least two buffers of bytes that differ from anything in the head
		fill := rapid.SampledFrom([]byte{'A', '#', 0xfe, '\n'}).Draw(t, "fill")
		cont := bytes.Repeat([]byte{fill}, 2*bufSize+rapid.IntRange(0, 100).Draw(t, "extra"))
		headAlone := rapid.Bool().Draw(t, "headInItsOwnRead")
		data := append(append([]byte(nil), h.raw...), cont...)
		src := &vpC09Src{data: data, headLen: len(h.raw)}
		if headAlone {
			src.plan = []int{len(h.raw), 0}
		}
		br := bufio.NewReaderSize(src, bufSize)
		var before, after string
		var rq RequestHeader
		var rs ResponseHeader
		var err error
		if h.isResp {
			err = rs.Read(br)
		} else {
			err = rq.Read(br)
		}
		if err != nil {
			vpCase("alias/rejected", false, string(h.raw), func() string { return fmt.Sprintf("%q rejected: %v", h.raw, err) })
			return
		}
		if h.isResp {
			before = vpC09RespView(&rs)
		} else {
			before = vpC09ReqView(&rq)
		}
		small := make([]byte, 97)
		n := 0
		for {
			k, rerr := br.Read(small)
			n += k
			if rerr != nil {
				if rerr != io.EOF {
					t.Fatalf("reading on after the head: %v", rerr)
				}
				break
			}
		}
		if h.isResp {
			after = vpC09RespView(&rs)
		} else {
			after = vpC09ReqView(&rq)
		}
		if before != after {
			t.Fatalf("C09: the parsed head changed when the bytes behind it were read through the same bufio.Reader (buffer %d, head in its own read: %v)\nhead   %q\nbefore %s\nafter  %s",
				bufSize, headAlone, h.raw, before, after)
		}
		vpCase(fmt.Sprintf("alias/accepted/resp=%v", h.isResp), true, string(h.raw)+fmt.Sprint(bufSize, headAlone, fill), func() string {
			return fmt.Sprintf("head=%q bufio=%d headAlone=%v bytesReadAfter=%d", h.raw, bufSize, headAlone, n)
		})
	})
}
