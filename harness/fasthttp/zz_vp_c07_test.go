package fasthttp

// C07 — configured size limits bound what is buffered.
//
//   TestVP_C07_ServerBodyLimit   Server.MaxRequestBodySize, non-streamed bodies (fixed / chunked)
//   TestVP_C07_ServerHeadLimit   request head vs Server.ReadBufferSize (431 + close)
//   TestVP_C07_ClientBodyLimit   HostClient.MaxResponseBodySize (fixed / chunked / identity-until-close)
//   TestVP_C07_DecompressLimit   Body{Gunzip,Inflate,Unbrotli,Unzstd,Uncompressed}WithLimit incl. bombs
//   TestVP_C07_MultipartLimit    Request.MultipartFormWithLimit (plain, gzip, body stream)
//
// Every expectation is derived from the limit L and the size the generator built: size > L must be
// refused (error status + close / ErrBodyTooLarge), size <= L must come through intact. The server
// check additionally bounds the number of bytes taken from the wire before the refusal.

import (
	"bufio"
	"bytes"
	stdgzip "compress/gzip"
	stdzlib "compress/zlib"
	"errors"
	"fmt"
	"io"
	"mime/multipart"
	"net"
	"net/http"
	"runtime"
	"strings"
	"sync"
	"testing"
	"time"

	"github.com/andybalholm/brotli"
	"github.com/klauspost/compress/zstd"
	"pgregory.net/rapid"
)

const vpC07Wait = 30 * time.Second

// vpC07GenLimit draws L with weight on small values and on the 4 KiB / 64 KiB region.
func vpC07GenLimit(t *rapid.T, maxL int) int {
	switch rapid.IntRange(0, 5).Draw(t, "Lkind") {
	case 0:
		return rapid.IntRange(1, 16).Draw(t, "Ltiny")
	case 1, 2:
		return rapid.IntRange(17, 600).Draw(t, "Lsmall")
	case 3:
		return rapid.SampledFrom([]int{1023, 1024, 4095, 4096, 4097, 8192}).Draw(t, "Lpow")
	case 4:
		return rapid.IntRange(600, min(maxL, 9000)).Draw(t, "Lmid")
	default:
		return maxL - rapid.IntRange(0, maxL/2).Draw(t, "Llarge")
	}
}

// vpC07GenSize draws a body size around L. The second result names the relation to the limit.
func vpC07GenSize(t *rapid.T, L int) (int, string) {
	switch rapid.IntRange(0, 9).Draw(t, "sizekind") {
	case 0:
		return L, "L"
	case 1:
		return L + 1, "L+1"
	case 2:
		return L - 1, "L-1"
	case 3:
		return L + 2, "L+2"
	case 4:
		return max(0, L-2), "L-2"
	case 5:
		return 2 * L, "2L"
	case 6:
		return 0, "0"
	case 7:
		return L + rapid.IntRange(1, 3*L+50).Draw(t, "over"), "L+k"
	case 8:
		return rapid.IntRange(0, L).Draw(t, "under"), "<=L"
	default:
		return L/2 + 1, "L/2"
	}
}

func vpC07Payload(n int, salt int) []byte {
	b := make([]byte, n)
	for i := range b {
		b[i] = "abcdefghijklmnopqrstuvwxyz0123456789"[(i*7+salt)%36]
	}
	return b
}

// vpC07Chunks splits a body of n bytes into chunk sizes; cuts are placed at / next to L when possible
// so that chunk boundaries straddle the limit.
func vpC07Chunks(t *rapid.T, n, L int) []int {
	if n == 0 {
		return nil
	}
	cutset := map[int]bool{}
	for _, c := range []int{L - 1, L, L + 1} {
		if c > 0 && c < n && rapid.IntRange(0, 2).Draw(t, "cutL") > 0 {
			cutset[c] = true
		}
	}
	for i, k := 0, rapid.IntRange(0, 5).Draw(t, "ncuts"); i < k; i++ {
		if n > 1 {
			cutset[rapid.IntRange(1, n-1).Draw(t, "cut")] = true
		}
	}
	var sizes []int
	prev := 0
	for c := 1; c < n; c++ {
		if cutset[c] {
			sizes = append(sizes, c-prev)
			prev = c
		}
	}
	return append(sizes, n-prev)
}

// vpC07ChunkWire encodes body with the given chunk sizes. crossOff is the offset (in the returned
// wire bytes) just behind the size line of the first chunk that makes the running total exceed L
// (len(wire) if none does): a reader that enforces L needs nothing beyond it.
func vpC07ChunkWire(t *rapid.T, body []byte, sizes []int, L int) (wire []byte, crossOff int) {
	var b bytes.Buffer
	crossOff = -1
	pos := 0
	for _, sz := range sizes {
		line := fmt.Sprintf("%x", sz)
		switch rapid.IntRange(0, 7).Draw(t, "szfmt") {
		case 0:
			line = strings.ToUpper(line)
		case 1:
			line = "00" + line
		case 2:
			line += ";ext=1"
		}
		b.WriteString(line + "\r\n")
		if crossOff < 0 && pos+sz > L {
			crossOff = b.Len()
		}
		b.Write(body[pos : pos+sz])
		b.WriteString("\r\n")
		pos += sz
	}
	b.WriteString("0\r\n\r\n")
	if crossOff < 0 {
		crossOff = b.Len()
	}
	return b.Bytes(), crossOff
}

// vpC07ParseResponses parses everything the server wrote (interim 100 responses are skipped by
// net/http). Returns the final responses' status codes, raw heads joined, and an error text.
func vpC07ParseResponses(out []byte) (codes []int, bodies [][]byte, err error) {
	br := bufio.NewReader(bytes.NewReader(out))
	for {
		if _, e := br.Peek(1); e != nil {
			return codes, bodies, nil
		}
		resp, e := http.ReadResponse(br, &http.Request{Method: "POST"})
		if e != nil {
			return codes, bodies, e
		}
		body, e := io.ReadAll(resp.Body)
		resp.Body.Close()
		if e != nil {
			return codes, bodies, e
		}
		if resp.StatusCode == 100 {
			continue // interim response to Expect: 100-continue
		}
		codes = append(codes, resp.StatusCode)
		bodies = append(bodies, body)
	}
}

// ---------------------------------------------------------------------------------------------
// server: MaxRequestBodySize

func TestVP_C07_ServerBodyLimit(t *testing.T) {
	rapid.Check(t, func(t *rapid.T) {
		L := vpC07GenLimit(t, vpScale(64*1024, 256*1024))
		// where the limit comes from: Server.MaxRequestBodySize, a per-request RequestConfig returned by
		// HeaderReceived (server-wide setting absent or larger), or the 4 MiB default of a non-positive setting
		limitSrc := rapid.SampledFrom([]string{"server", "server", "server", "per-request", "per-request", "default"}).Draw(t, "limitSrc")
		srvLimit := L
		switch limitSrc {
		case "per-request":
			srvLimit = rapid.SampledFrom([]int{0, 4 * L, 1 << 30}).Draw(t, "serverWide")
		case "default":
			srvLimit = rapid.SampledFrom([]int{0, -1}).Draw(t, "nonPositive")
			L = DefaultMaxRequestBodySize
		}
		size, rel := vpC07GenSize(t, L)
		rbs := rapid.SampledFrom([]int{4096, 4096, 256, 512, 1024, 8192, 300}).Draw(t, "rbs")
		framing := rapid.SampledFrom([]string{"fixed", "chunked", "chunked", "fixed-unsent", "chunked-unsent", "fixed-multipart"}).Draw(t, "framing")
		if limitSrc == "default" {
			// bodies around 4 MiB are only declared, not sent (the decision has to fall on the declaration)
			framing = rapid.SampledFrom([]string{"fixed-unsent", "chunked-unsent"}).Draw(t, "framingUnsent")
		}
		expect100 := rapid.IntRange(0, 7).Draw(t, "expect100") >= 6
		rmu := rapid.Bool().Draw(t, "rmu")
		stayOpen := rapid.Bool().Draw(t, "stayopen")
		body := vpC07Payload(size, L)
		if limitSrc == "default" {
			body = vpC07Payload(min(size, 16), L)
		}
		head := "POST /c07 HTTP/1.1\r\nHost: example.com\r\n"
		var formValue []byte // fixed-multipart: the value of the single form field
		if framing == "fixed-multipart" {
			// a well-formed multipart/form-data body of exactly size bytes (the server pre-parses such bodies
			// when their length is fixed); sizes too small for the multipart syntax are sent as a plain body
			const pre, post = "--vpB\r\nContent-Disposition: form-data; name=\"f\"\r\n\r\n", "\r\n--vpB--\r\n"
			if size >= len(pre)+len(post) {
				formValue = vpC07Payload(size-len(pre)-len(post), L)
				body = append(append([]byte(pre), formValue...), post...)
				head += "Content-Type: multipart/form-data; boundary=vpB\r\n"
			} else {
				framing = "fixed"
			}
		}
		if expect100 {
			head += "Expect: 100-continue\r\n"
		}
		var wire []byte
		overhead := 0 // bytes of chunk syntax the server may have to read before it can know that L is exceeded
		sent := size  // body bytes actually on the wire
		switch framing {
		case "fixed", "fixed-multipart":
			head += fmt.Sprintf("Content-Length: %d\r\n\r\n", size)
			wire = body
		case "fixed-unsent": // the length is only declared; at most a few bytes follow and the connection stays open
			declared := size
			if rapid.Bool().Draw(t, "huge") && size > L {
				// far above any limit; mostly a size that a server which wrongly accepts it can still
				// allocate (it then shows up as a violation below instead of killing the test process)
				declared = rapid.SampledFrom([]int{1 << 26, 1 << 26, 1 << 26, 1 << 40}).Draw(t, "hugeSize")
			}
			head += fmt.Sprintf("Content-Length: %d\r\n\r\n", declared)
			sent = min(size, rapid.IntRange(0, 3).Draw(t, "sentbytes"))
			wire = body[:sent]
			if sent < declared {
				stayOpen = true
			}
			size = declared
		case "chunked":
			head += "Transfer-Encoding: chunked\r\n\r\n"
			var cross int
			wire, cross = vpC07ChunkWire(t, body, vpC07Chunks(t, size, L), L)
			overhead = cross // (includes the <= L data bytes in front of the crossing chunk; see bound below)
		default: // chunked-unsent: one chunk-size line declaring the whole body, no data
			head += "Transfer-Encoding: chunked\r\n\r\n"
			if size == 0 {
				wire = []byte("0\r\n\r\n")
			} else {
				wire = []byte(fmt.Sprintf("%x\r\n", size))
				sent = 0
				stayOpen = true
			}
			overhead = len(wire)
		}
		stream := append([]byte(head), wire...)
		if framing == "fixed" || framing == "chunked" || framing == "fixed-multipart" {
			// a follow-up request: must never be served behind a refused one
			stream = append(stream, "GET /after HTTP/1.1\r\nHost: example.com\r\n\r\n"...)
		}
		plan := vpGenSplit(t, len(stream), []int{len(head), len(head) + overhead})

		var mu sync.Mutex
		var calls []string
		var seen [][]byte
		s := &Server{
			Handler: func(ctx *RequestCtx) {
				mu.Lock()
				calls = append(calls, string(ctx.Method())+" "+string(ctx.Path()))
				if formValue != nil && ctx.IsPost() {
					// the pre-parsed form is the body; PostBody would re-serialise it
					var v []byte
					if f, err := ctx.MultipartForm(); err == nil && len(f.Value["f"]) == 1 {
						v = []byte(f.Value["f"][0])
					}
					seen = append(seen, v)
				} else {
					seen = append(seen, append([]byte(nil), ctx.PostBody()...))
				}
				mu.Unlock()
				ctx.SetBodyString("ok")
			},
			MaxRequestBodySize: srvLimit,
			ReadBufferSize:     rbs,
			ReduceMemoryUsage:  rmu,
			Logger:             vpNopLogger{},
		}
		if limitSrc == "per-request" {
			s.HeaderReceived = func(*RequestHeader) RequestConfig { return RequestConfig{MaxRequestBodySize: L} }
		}
		w := vpNewWire(stream, plan, !stayOpen)
		done := make(chan struct{})
		go func() { s.ServeConn(w); close(done) }()
		st := w.WaitIdleOrClosed(vpC07Wait)
		delivered := w.Delivered()
		out := w.Out()
		w.FinishInput()
		select {
		case <-done:
		case <-time.After(vpC07Wait):
			w.Close()
			<-done
			t.Fatalf("ServeConn did not return within %v after the input ended", vpC07Wait)
		}
		if st == "idle" { // the server was waiting for more input; whatever it wrote afterwards belongs to the EOF
			out = out[:len(out):len(out)]
		} else {
			out = w.Out()
			delivered = w.Delivered()
		}
		mu.Lock()
		defer mu.Unlock()
		tooLarge := size > L
		complete := sent == size || framing == "chunked"
		class := fmt.Sprintf("server/%s/%s", framing, rel)
		if expect100 {
			class += "/expect100"
		}
		if limitSrc != "server" {
			class += "/limit-" + limitSrc
		}
		nontrivial := size >= L-2 && size <= L+2 || framing == "chunked" && size > L
		vpCase(class, nontrivial, fmt.Sprintf("%d|%d|%d|%s|%v|%v|%v|%s%d", L, size, rbs, framing, plan, rmu, expect100, limitSrc, srvLimit), func() string {
			return fmt.Sprintf("limit=%s(server-wide %d) L=%d size=%d sent=%d rbs=%d framing=%s expect100=%v rmu=%v stayOpen=%v plan=%v -> state=%s calls=%q delivered=%d/%d out=%s",
				L, size, sent, rbs, framing, expect100, rmu, stayOpen, plan, st, calls, delivered, len(stream), vpQuote(out, 160))
		})
		desc := fmt.Sprintf("limit=%s(server-wide %d) L=%d size=%d sent=%d rbs=%d framing=%s expect100=%v rmu=%v stayOpen=%v plan=%v head=%q", limitSrc, srvLimit, L, size, sent, rbs, framing, expect100, rmu, stayOpen, plan, head)
		if st == "timeout" {
			t.Fatalf("server neither answered/closed nor went idle within %v (%s)", vpC07Wait, desc)
		}
		codes, _, perr := vpC07ParseResponses(out)
		if perr != nil {
			t.Fatalf("server output is not a sequence of responses: %v (%s) out=%s", perr, desc, vpQuote(out, 300))
		}
		if tooLarge {
			for _, c := range calls {
				if strings.HasPrefix(c, "POST") {
					t.Fatalf("body of %d bytes > MaxRequestBodySize %d reached the handler (%d bytes seen) (%s)", size, L, len(seen[0]), desc)
				}
			}
			if len(calls) > 0 {
				t.Fatalf("a request was served behind the refused one: calls=%q (%s)", calls, desc)
			}
			if len(codes) != 1 || codes[0] < 400 {
				t.Fatalf("body of %d bytes > MaxRequestBodySize %d: want exactly one error response (>=400), got status codes %v (%s) out=%s", size, L, codes, desc, vpQuote(out, 300))
			}
			if st != "closed" {
				t.Fatalf("body of %d bytes > MaxRequestBodySize %d: the connection was not closed after the error response (state %s) (%s)", size, L, st, desc)
			}
			// black-box bound on buffering: head + what is needed to learn that L is exceeded (at most L data
			// bytes plus the chunk syntax around them) + one read buffer of read-ahead
			bound := len(head) + rbs
			if framing == "chunked" || framing == "chunked-unsent" {
				bound += overhead
			}
			if delivered > bound {
				t.Fatalf("body of %d bytes > MaxRequestBodySize %d: the server took %d bytes from the wire before refusing; bound head(%d) + L-and-chunk-syntax(%d) + ReadBufferSize(%d) = %d (%s)",
					size, L, delivered, len(head), overhead, rbs, bound, desc)
			}
			return
		}
		if !complete {
			// the declared body (<= L) never arrives: the server must simply keep waiting or fail at EOF; it must not dispatch
			if len(calls) > 0 {
				t.Fatalf("handler called although only %d of %d declared body bytes were sent: %q (%s)", sent, size, calls, desc)
			}
			return
		}
		if len(calls) < 1 || calls[0] != "POST /c07" {
			t.Fatalf("body of %d bytes <= MaxRequestBodySize %d was not delivered to the handler: calls=%q codes=%v (%s) out=%s", size, L, calls, codes, desc, vpQuote(out, 300))
		}
		if formValue != nil {
			if !bytes.Equal(seen[0], formValue) {
				t.Fatalf("multipart body of %d bytes <= MaxRequestBodySize %d: form field arrived altered: handler saw %d bytes %s (%s)", size, L, len(seen[0]), vpQuote(seen[0], 80), desc)
			}
		} else if !bytes.Equal(seen[0], body) {
			t.Fatalf("body of %d bytes <= MaxRequestBodySize %d arrived altered: handler saw %d bytes %s (%s)", size, L, len(seen[0]), vpQuote(seen[0], 80), desc)
		}
		if len(codes) < 1 || codes[0] != 200 {
			t.Fatalf("body of %d bytes <= MaxRequestBodySize %d: response status %v, want 200 (%s)", size, L, codes, desc)
		}
	})
}

// ---------------------------------------------------------------------------------------------
// server: head vs ReadBufferSize

func TestVP_C07_ServerHeadLimit(t *testing.T) {
	rapid.Check(t, func(t *rapid.T) {
		rbs := rapid.SampledFrom([]int{4096, 128, 256, 300, 512, 1024, 2048, 8192, 100}).Draw(t, "rbs")
		const minHead = len("GET /h HTTP/1.1\r\nHost: example.com\r\nX-Pad: \r\n\r\n")
		var headLen int
		var rel string
		switch rapid.IntRange(0, 7).Draw(t, "hkind") {
		case 0:
			headLen, rel = rbs, "RBS"
		case 1:
			headLen, rel = rbs+1, "RBS+1"
		case 2:
			headLen, rel = rbs-1, "RBS-1"
		case 3:
			headLen, rel = rbs+2, "RBS+2"
		case 4:
			headLen, rel = 2*rbs+7, "2RBS"
		case 5:
			headLen, rel = rbs+rapid.IntRange(3, 3000).Draw(t, "hover"), "RBS+k"
		case 6:
			headLen, rel = rbs-rapid.IntRange(2, rbs).Draw(t, "hunder"), "RBS-k"
		default:
			headLen, rel = rbs/2, "RBS/2"
		}
		if headLen < minHead {
			headLen, rel = minHead, "min"
		}
		where := rapid.SampledFrom([]string{"header", "header", "uri", "many"}).Draw(t, "where")
		pad := headLen - minHead
		var head string
		switch where {
		case "uri":
			head = "GET /h" + strings.Repeat("u", pad) + " HTTP/1.1\r\nHost: example.com\r\nX-Pad: \r\n\r\n"
		case "many":
			var b strings.Builder
			b.WriteString("GET /h HTTP/1.1\r\nHost: example.com\r\n")
			rest := pad
			for i := 0; rest >= 10; i++ {
				l := fmt.Sprintf("X%03d: v\r\n", i%1000)
				b.WriteString(l)
				rest -= len(l)
			}
			b.WriteString("X-Pad: " + strings.Repeat("p", rest) + "\r\n\r\n")
			head = b.String()
		default:
			head = "GET /h HTTP/1.1\r\nHost: example.com\r\nX-Pad: " + strings.Repeat("p", pad) + "\r\n\r\n"
		}
		if len(head) != headLen {
			t.Fatalf("harness: head length %d, want %d", len(head), headLen)
		}
		first := rapid.IntRange(0, 3).Draw(t, "first") == 3 // a small keep-alive request in front
		rmu := rapid.Bool().Draw(t, "rmu")
		stayOpen := rapid.Bool().Draw(t, "stayopen")
		stream := []byte(head + "GET /after HTTP/1.1\r\nHost: example.com\r\n\r\n")
		if first {
			stream = append([]byte("GET /first HTTP/1.1\r\nHost: example.com\r\n\r\n"), stream...)
		}
		plan := vpGenSplit(t, len(stream), []int{len(stream) - 43, rbs, rbs + 43})
		var mu sync.Mutex
		var calls []string
		s := &Server{
			Handler: func(ctx *RequestCtx) {
				mu.Lock()
				calls = append(calls, string(ctx.Path()))
				mu.Unlock()
				ctx.SetBodyString("ok")
			},
			ReadBufferSize:    rbs,
			ReduceMemoryUsage: rmu,
			Logger:            vpNopLogger{},
		}
		w := vpNewWire(stream, plan, !stayOpen)
		done := make(chan struct{})
		go func() { s.ServeConn(w); close(done) }()
		st := w.WaitIdleOrClosed(vpC07Wait)
		out := w.Out()
		w.FinishInput()
		select {
		case <-done:
		case <-time.After(vpC07Wait):
			w.Close()
			<-done
			t.Fatalf("ServeConn did not return within %v after the input ended", vpC07Wait)
		}
		if st != "idle" {
			out = w.Out()
		}
		mu.Lock()
		defer mu.Unlock()
		tooBig := headLen > rbs
		vpCase(fmt.Sprintf("head/%s/%s", where, rel), headLen >= rbs-2 && headLen <= rbs+2, fmt.Sprintf("%d|%d|%s|%v|%v|%v", rbs, headLen, where, first, rmu, plan), func() string {
			return fmt.Sprintf("rbs=%d head=%d where=%s first=%v rmu=%v plan=%v -> state=%s calls=%q out=%s", rbs, headLen, where, first, rmu, plan, st, calls, vpQuote(out, 120))
		})
		desc := fmt.Sprintf("ReadBufferSize=%d head=%d bytes (padding in %s) first=%v rmu=%v stayOpen=%v plan=%v", rbs, headLen, where, first, rmu, stayOpen, plan)
		if st == "timeout" {
			t.Fatalf("server neither answered/closed nor went idle within %v (%s)", vpC07Wait, desc)
		}
		codes, _, perr := vpC07ParseResponses(out)
		if perr != nil {
			t.Fatalf("server output is not a sequence of responses: %v (%s) out=%s", perr, desc, vpQuote(out, 300))
		}
		nFirst := 0
		if first {
			nFirst = 1
			if len(calls) < 1 || calls[0] != "/first" || len(codes) < 1 || codes[0] != 200 {
				t.Fatalf("the small first request was not served: calls=%q codes=%v (%s)", calls, codes, desc)
			}
		}
		if tooBig {
			if len(calls) != nFirst {
				t.Fatalf("request head of %d bytes > ReadBufferSize %d: handler calls %q (%s)", headLen, rbs, calls, desc)
			}
			if len(codes) != nFirst+1 || codes[nFirst] != StatusRequestHeaderFieldsTooLarge {
				t.Fatalf("request head of %d bytes > ReadBufferSize %d: want one 431 response, got status codes %v (%s) out=%s", headLen, rbs, codes, desc, vpQuote(out, 300))
			}
			if st != "closed" {
				t.Fatalf("request head of %d bytes > ReadBufferSize %d: connection not closed after the 431 (state %s) (%s)", headLen, rbs, st, desc)
			}
			return
		}
		if len(calls) != nFirst+2 || !strings.HasPrefix(calls[nFirst], "/h") || calls[nFirst+1] != "/after" {
			t.Fatalf("request head of %d bytes <= ReadBufferSize %d was not served (and the request behind it): calls=%q codes=%v (%s) out=%s", headLen, rbs, calls, codes, desc, vpQuote(out, 300))
		}
		for _, c := range codes {
			if c != 200 {
				t.Fatalf("request head of %d bytes <= ReadBufferSize %d: status codes %v, want all 200 (%s)", headLen, rbs, codes, desc)
			}
		}
	})
}

// ---------------------------------------------------------------------------------------------
// client: MaxResponseBodySize

func TestVP_C07_ClientBodyLimit(t *testing.T) {
	rapid.Check(t, func(t *rapid.T) {
		L := vpC07GenLimit(t, vpScale(64*1024, 256*1024))
		size, rel := vpC07GenSize(t, L)
		framing := rapid.SampledFrom([]string{"fixed", "chunked", "chunked", "identity", "fixed-unsent", "chunked-unsent"}).Draw(t, "framing")
		rbs := rapid.SampledFrom([]int{4096, 4096, 256, 1024, 8192}).Draw(t, "rbs")
		body := vpC07Payload(size, L+1)
		head := "HTTP/1.1 200 OK\r\nContent-Type: text/plain\r\n"
		var wire []byte
		eof := true
		complete := true
		switch framing {
		case "fixed", "fixed-multipart":
			head += fmt.Sprintf("Content-Length: %d\r\n\r\n", size)
			wire = body
		case "fixed-unsent":
			declared := size
			if size > L && rapid.Bool().Draw(t, "huge") {
				declared = rapid.SampledFrom([]int{1 << 26, 1 << 26, 1 << 26, 1 << 40}).Draw(t, "hugeSize")
			}
			head += fmt.Sprintf("Content-Length: %d\r\n\r\n", declared)
			wire = body[:min(size, rapid.IntRange(0, 3).Draw(t, "sentbytes"))]
			complete = len(wire) == declared
			size = declared
			eof = size <= L // for size > L the connection stays open: the client must not wait for the body
		case "chunked":
			head += "Transfer-Encoding: chunked\r\n\r\n"
			wire, _ = vpC07ChunkWire(t, body, vpC07Chunks(t, size, L), L)
		case "chunked-unsent":
			head += "Transfer-Encoding: chunked\r\n\r\n"
			if size == 0 {
				wire = []byte("0\r\n\r\n")
			} else {
				wire = []byte(fmt.Sprintf("%x\r\n", size))
				complete = false
				eof = size <= L
			}
		default: // identity: body until the connection is closed
			head += "Connection: close\r\n\r\n"
			wire = body
		}
		stream := append([]byte(head), wire...)
		plan := vpGenSplit(t, len(stream), []int{len(head), len(head) + L, len(stream) - 5})
		dials := 0
		hc := &HostClient{
			Addr: "c07.example:80",
			Dial: func(addr string) (net.Conn, error) {
				dials++
				return vpNewWire(stream, plan, eof), nil
			},
			MaxResponseBodySize:       L,
			ReadBufferSize:            rbs,
			MaxIdemponentCallAttempts: 1,
		}
		req, resp := AcquireRequest(), AcquireResponse()
		defer ReleaseRequest(req)
		defer ReleaseResponse(resp)
		req.SetRequestURI("http://c07.example/x")
		err := hc.DoTimeout(req, resp, vpC07Wait)
		got := append([]byte(nil), resp.Body()...)
		hc.CloseIdleConnections()
		tooLarge := size > L
		class := fmt.Sprintf("client/%s/%s", framing, rel)
		nontrivial := size >= L-2 && size <= L+2 || (framing == "chunked" && size > L)
		vpCase(class, nontrivial, fmt.Sprintf("%d|%d|%d|%s|%v", L, size, rbs, framing, plan), func() string {
			return fmt.Sprintf("L=%d size=%d rbs=%d framing=%s plan=%v -> err=%v bodylen=%d", L, size, rbs, framing, plan, err, len(got))
		})
		desc := fmt.Sprintf("MaxResponseBodySize=%d response body size=%d framing=%s rbs=%d plan=%v head=%q", L, size, framing, rbs, plan, head)
		if errors.Is(err, ErrTimeout) {
			t.Fatalf("client call did not finish within %v (%s)", vpC07Wait, desc)
		}
		if err == nil && len(got) > L {
			t.Fatalf("client returned a body of %d bytes > MaxResponseBodySize %d (%s)", len(got), L, desc)
		}
		if tooLarge {
			if !errors.Is(err, ErrBodyTooLarge) {
				t.Fatalf("response body of %d bytes > MaxResponseBodySize %d: err = %v, want ErrBodyTooLarge (%s)", size, L, err, desc)
			}
			return
		}
		if errors.Is(err, ErrBodyTooLarge) {
			t.Fatalf("response body of %d bytes <= MaxResponseBodySize %d: got ErrBodyTooLarge (%s)", size, L, desc)
		}
		if !complete {
			if err == nil {
				t.Fatalf("truncated response (declared %d bytes) returned without error (%s)", size, desc)
			}
			return
		}
		if err != nil {
			t.Fatalf("response body of %d bytes <= MaxResponseBodySize %d: unexpected error %v (%s)", size, L, err, desc)
		}
		if !bytes.Equal(got, body) {
			t.Fatalf("response body of %d bytes <= MaxResponseBodySize %d arrived altered: %d bytes %s (%s)", size, L, len(got), vpQuote(got, 80), desc)
		}
	})
}

// ---------------------------------------------------------------------------------------------
// decompression helpers

var vpC07Codecs = []string{"gzip", "deflate", "br", "zstd"}

func vpC07Compress(codec string, plain []byte) []byte {
	var b bytes.Buffer
	switch codec {
	case "gzip":
		w := stdgzip.NewWriter(&b)
		w.Write(plain)
		w.Close()
	case "deflate": // HTTP "deflate" = zlib format
		w := stdzlib.NewWriter(&b)
		w.Write(plain)
		w.Close()
	case "br":
		w := brotli.NewWriterLevel(&b, 4)
		w.Write(plain)
		w.Close()
	case "zstd":
		w, _ := zstd.NewWriter(&b, zstd.WithEncoderLevel(zstd.SpeedFastest))
		w.Write(plain)
		w.Close()
	}
	return b.Bytes()
}

var vpC07Bombs struct {
	once sync.Once
	size int
	data map[string][]byte
}

// vpC07Bomb returns a highly compressible payload (zeros) of vpC07Bombs.size bytes, compressed.
func vpC07Bomb(codec string) ([]byte, int) {
	vpC07Bombs.once.Do(func() {
		vpC07Bombs.size = vpScale(32, 64) << 20
		vpC07Bombs.data = map[string][]byte{}
		zeros := make([]byte, vpC07Bombs.size)
		for _, c := range vpC07Codecs {
			vpC07Bombs.data[c] = vpC07Compress(c, zeros)
		}
	})
	return vpC07Bombs.data[codec], vpC07Bombs.size
}

type vpC07Decomp struct {
	name string
	call func(req *Request, resp *Response, L int) ([]byte, error)
}

func vpC07DecompFor(codec string, onResp, generic bool) vpC07Decomp {
	side := "Request"
	if onResp {
		side = "Response"
	}
	if generic {
		return vpC07Decomp{side + ".BodyUncompressedWithLimit(" + codec + ")", func(req *Request, resp *Response, L int) ([]byte, error) {
			if onResp {
				return resp.BodyUncompressedWithLimit(L)
			}
			return req.BodyUncompressedWithLimit(L)
		}}
	}
	m := map[string]string{"gzip": "BodyGunzipWithLimit", "deflate": "BodyInflateWithLimit", "br": "BodyUnbrotliWithLimit", "zstd": "BodyUnzstdWithLimit"}[codec]
	return vpC07Decomp{side + "." + m, func(req *Request, resp *Response, L int) ([]byte, error) {
		switch {
		case onResp && codec == "gzip":
			return resp.BodyGunzipWithLimit(L)
		case onResp && codec == "deflate":
			return resp.BodyInflateWithLimit(L)
		case onResp && codec == "br":
			return resp.BodyUnbrotliWithLimit(L)
		case onResp:
			return resp.BodyUnzstdWithLimit(L)
		case codec == "gzip":
			return req.BodyGunzipWithLimit(L)
		case codec == "deflate":
			return req.BodyInflateWithLimit(L)
		case codec == "br":
			return req.BodyUnbrotliWithLimit(L)
		default:
			return req.BodyUnzstdWithLimit(L)
		}
	}}
}

const vpC07KeyIdentity = "C07/body-uncompressed-with-limit-ignores-limit-for-identity"

// A brotli reader whose decode was cut short by the limit goes back to the pool with compressed input
// still pending; the next brotli decode that picks it up starts with those stale bytes.
const vpC07KeyBrotli = "C07/brotli-reader-pooled-after-aborted-decode"

var vpC07BrDirty bool // a brotli helper call ended with an error since the pool was last purged

var vpC07ProbeOnce sync.Once

func vpC07Probe() {
	vpC07ProbeOnce.Do(func() {
		var req Request
		req.SetBody([]byte("0123456789"))
		b, err := req.BodyUncompressedWithLimit(4)
		vpProbe(vpC07KeyIdentity, err == nil && len(b) > 4, fmt.Sprintf("Request without Content-Encoding, 10-byte body: BodyUncompressedWithLimit(4) = %d bytes, err=%v", len(b), err))
		// brotli: refuse a bomb, then decode a small valid body
		brotliReaderPool = sync.Pool{}
		bomb, n := vpC07Bomb("br")
		var r1, r2 Request
		r1.SetBody(bomb)
		_, e1 := r1.BodyUnbrotliWithLimit(1024)
		small := make([]byte, 7)
		r2.SetBody(vpC07Compress("br", small))
		b2, e2 := r2.BodyUnbrotliWithLimit(12)
		brotliReaderPool = sync.Pool{}
		vpProbe(vpC07KeyBrotli, e2 != nil || !bytes.Equal(b2, small), fmt.Sprintf("BodyUnbrotliWithLimit(1024) on %d zero bytes (%d compressed): err=%v; next BodyUnbrotliWithLimit(12) on a valid 7-byte body: %d bytes, err=%v", n, len(bomb), e1, len(b2), e2))
	})
}

var vpC07LastDecomp = map[string]string{}

func TestVP_C07_DecompressLimit(t *testing.T) {
	vpC07Probe()
	rapid.Check(t, func(t *rapid.T) {
		codec := rapid.SampledFrom([]string{"gzip", "deflate", "br", "zstd", "gzip", "deflate", "br", "zstd", "identity"}).Draw(t, "codec")
		onResp := rapid.Bool().Draw(t, "onresp")
		generic := codec == "identity" || rapid.IntRange(0, 2).Draw(t, "generic") == 2
		bomb := codec != "identity" && rapid.IntRange(0, 24).Draw(t, "bomb") == 24
		var L, size int
		var rel string
		var plain, packed []byte
		if bomb {
			packed, size = vpC07Bomb(codec)
			L = rapid.SampledFrom([]int{1, 1024, 65536, 1 << 20}).Draw(t, "bombL")
			rel = "bomb"
		} else {
			L = vpC07GenLimit(t, vpScale(64*1024, 1024*1024))
			size, rel = vpC07GenSize(t, L)
			switch rapid.IntRange(0, 2).Draw(t, "content") {
			case 0:
				plain = vpC07Payload(size, L)
			case 1:
				plain = make([]byte, size) // highly compressible
			default:
				plain = bytes.Repeat([]byte("lorem ipsum dolor sit amet "), size/27+1)[:size]
			}
			if codec == "identity" {
				packed = plain
			} else {
				packed = vpC07Compress(codec, plain)
			}
		}
		if codec == "identity" && size > L && vpKnownOpen(vpC07KeyIdentity) {
			// known finding: steer to a size within the limit
			vpExclude(vpC07KeyIdentity)
			size, rel = L, "L"
			plain = plain[:size]
			packed = plain
		}
		var req Request
		var resp Response
		// a stored body may carry a Content-Encoding label the helper has no decoder for (or spells one it has
		// differently): whatever the helper makes of it, it "never returns more than L bytes"
		label := ""
		if codec == "identity" && rapid.Bool().Draw(t, "labelled") {
			label = rapid.SampledFrom([]string{"identity", "IDENTITY", "Identity", "x-gzip", "compress", "none", "gzip, identity", "identity, gzip",
				"GZIP", "Gzip", "x-deflate", "chunked", "*", "utf-8", "binary", "7bit"}).Draw(t, "label")
		}
		if onResp {
			resp.SetBody(packed)
			if codec != "identity" {
				resp.Header.Set("Content-Encoding", codec)
			} else if label != "" {
				resp.Header.Set("Content-Encoding", label)
			}
		} else {
			req.SetBody(packed)
			if codec != "identity" {
				req.Header.Set("Content-Encoding", codec)
			} else if label != "" {
				req.Header.Set("Content-Encoding", label)
			}
		}
		d := vpC07DecompFor(codec, onResp, generic)
		if label != "" {
			d.name = strings.Replace(d.name, "(identity)", "(stored body labelled "+label+")", 1)
			got, err := d.call(&req, &resp, L)
			vpCase("decompress/"+strings.Replace(d.name, label, "*", 1)+"/"+rel, size >= L-2 && size <= L+2, fmt.Sprintf("%s|%d|%d", d.name, L, size), func() string {
				return fmt.Sprintf("%s L=%d body=%d -> len=%d err=%v", d.name, L, size, len(got), err)
			})
			if len(got) > L {
				t.Fatalf("%s limit=%d body size=%d returned %d bytes > limit (err=%v)", d.name, L, size, len(got), err)
			}
			return
		}
		if codec == "br" && vpC07BrDirty && vpKnownOpen(vpC07KeyBrotli) {
			// known finding: do not let this decode pick up a reader that was abandoned mid-stream
			vpExclude(vpC07KeyBrotli)
			brotliReaderPool = sync.Pool{}
			vpC07BrDirty = false
		}
		var m0, m1 runtime.MemStats
		if bomb {
			runtime.ReadMemStats(&m0)
		}
		got, err := d.call(&req, &resp, L)
		if bomb {
			runtime.ReadMemStats(&m1)
		}
		vpCase("decompress/"+d.name+"/"+rel, size >= L-2 && size <= L+2 || bomb, fmt.Sprintf("%s|%d|%d|%d", d.name, L, size, len(packed)), func() string {
			return fmt.Sprintf("%s L=%d plain=%d packed=%d -> len=%d err=%v", d.name, L, size, len(packed), len(got), err)
		})
		desc := fmt.Sprintf("%s limit=%d decoded size=%d compressed size=%d", d.name, L, size, len(packed))
		if codec == "br" && err != nil {
			vpC07BrDirty = true
		}
		prevSame := vpC07LastDecomp[codec]
		vpC07LastDecomp[codec] = fmt.Sprintf("%s -> %d bytes, err=%v", desc, len(got), err)
		if len(got) > L {
			t.Fatalf("%s returned %d bytes > limit (err=%v)", desc, len(got), err)
		}
		if size > L {
			if !errors.Is(err, ErrBodyTooLarge) {
				t.Fatalf("%s: err = %v, want ErrBodyTooLarge", desc, err)
			}
			if bomb {
				if alloc := m1.TotalAlloc - m0.TotalAlloc; alloc > uint64(size/2) {
					t.Fatalf("%s: %d bytes were allocated while refusing the bomb (more than half of its decoded size)", desc, alloc)
				}
			}
			return
		}
		if err != nil {
			got2, err2 := d.call(&req, &resp, L)
			t.Fatalf("%s: unexpected error %v (the same call repeated: %d bytes, err=%v; previous %s call in this process: %s)", desc, err, len(got2), err2, codec, prevSame)
		}
		if !bomb && !bytes.Equal(got, plain) {
			t.Fatalf("%s: decoded bytes differ from the plaintext (got %d bytes %s)", desc, len(got), vpQuote(got, 60))
		}
	})
}

// ---------------------------------------------------------------------------------------------
// multipart helper

func TestVP_C07_MultipartLimit(t *testing.T) {
	rapid.Check(t, func(t *rapid.T) {
		L := vpC07GenLimit(t, vpScale(64*1024, 512*1024))
		if L < 400 && rapid.IntRange(0, 3).Draw(t, "liftL") > 0 {
			L += 400 // the smallest well-formed form has 140-330 bytes: keep most limits above it so that sizes L-1, L, L+1 exist
		}
		size, rel := vpC07GenSize(t, L)
		mode := rapid.SampledFrom([]string{"plain", "plain", "gzip", "stream"}).Draw(t, "mode")
		// build a well-formed form whose encoded length is exactly `size` (when size allows a form at all)
		const boundary = "vpC07boundary"
		build := func(val, file []byte) []byte {
			var b bytes.Buffer
			mw := multipart.NewWriter(&b)
			mw.SetBoundary(boundary)
			fw, _ := mw.CreateFormField("k")
			fw.Write(val)
			if file != nil {
				ff, _ := mw.CreateFormFile("f", "a.bin")
				ff.Write(file)
			}
			mw.Close()
			return b.Bytes()
		}
		withFile := rapid.Bool().Draw(t, "withfile")
		var file []byte
		if withFile {
			file = []byte{}
		}
		base := len(build(nil, file))
		var val []byte
		if size < base {
			size = base
			rel = "min-form"
		}
		pad := vpC07Payload(size-base, L)
		if withFile && rapid.Bool().Draw(t, "padfile") {
			file = pad
		} else {
			val = pad
		}
		form := build(val, file)
		if len(form) != size {
			t.Fatalf("harness: form of %d bytes, want %d", len(form), size)
		}
		var req Request
		req.Header.SetMethod("POST")
		req.Header.SetContentType("multipart/form-data; boundary=" + boundary)
		switch mode {
		case "gzip":
			req.Header.Set("Content-Encoding", "gzip")
			req.SetBody(vpC07Compress("gzip", form))
		case "stream":
			req.SetBodyStream(&vpC07PieceReader{data: form, piece: rapid.SampledFrom([]int{1 << 20, 1, 7, 4096, 1000}).Draw(t, "piece")}, len(form))
		default:
			req.SetBody(form)
		}
		f, err := req.MultipartFormWithLimit(L)
		returned := 0
		var gotVal, gotFile []byte
		if err == nil && f != nil {
			for _, vv := range f.Value {
				for _, v := range vv {
					returned += len(v)
					gotVal = []byte(v)
				}
			}
			for _, ff := range f.File {
				for _, fh := range ff {
					if fd, e := fh.Open(); e == nil {
						gotFile, _ = io.ReadAll(fd)
						fd.Close()
					}
					returned += len(gotFile)
				}
			}
		}
		req.RemoveMultipartFormFiles()
		vpCase("multipart/"+mode+"/"+rel, size >= L-2 && size <= L+2, fmt.Sprintf("%s|%d|%d|%v", mode, L, size, withFile), func() string {
			return fmt.Sprintf("mode=%s L=%d form=%d bytes -> err=%v returned=%d", mode, L, size, err, returned)
		})
		desc := fmt.Sprintf("MultipartFormWithLimit(%d) on a %s form body of %d decoded bytes", L, mode, size)
		if returned > L {
			t.Fatalf("%s returned %d payload bytes > limit", desc, returned)
		}
		if size > L {
			if mode == "stream" {
				// the stream reader may stop at the closing boundary before it has seen byte L+1
				if err != nil && !errors.Is(err, ErrBodyTooLarge) {
					t.Fatalf("%s: err = %v, want ErrBodyTooLarge (or a result within the limit)", desc, err)
				}
				return
			}
			if !errors.Is(err, ErrBodyTooLarge) {
				t.Fatalf("%s: err = %v, want ErrBodyTooLarge", desc, err)
			}
			return
		}
		if err != nil {
			t.Fatalf("%s: unexpected error %v", desc, err)
		}
		if !bytes.Equal(gotVal, val) || (withFile && !bytes.Equal(gotFile, file)) {
			t.Fatalf("%s: form content differs (value %d bytes, file %d bytes; want %d / %d)", desc, len(gotVal), len(gotFile), len(val), len(file))
		}
	})
}

type vpC07PieceReader struct {
	data  []byte
	piece int
}

func (r *vpC07PieceReader) Read(p []byte) (int, error) {
	if len(r.data) == 0 {
		return 0, io.EOF
	}
	n := min(len(p), r.piece, len(r.data))
	copy(p, r.data[:n])
	r.data = r.data[n:]
	return n, nil
}
