package fasthttp

// C30 — integer codecs are exact.
// Oracles: math/big for decimal values, strconv for hex, net/http/httputil's chunked reader for
// the chunk wire format. None of them shares code with fasthttp.

import (
	"bufio"
	"bytes"
	"fmt"
	"io"
	"math"
	"math/big"
	"net/http/httputil"
	"strconv"
	"strings"
	"testing"

	"pgregory.net/rapid"
)

var vpMaxIntBig = big.NewInt(math.MaxInt)

// vpGenDigits produces decimal-looking strings concentrated where overflow decisions are made.
func vpGenDigits() *rapid.Generator[string] {
	maxs := strconv.Itoa(math.MaxInt)
	return rapid.Custom(func(t *rapid.T) string {
		var s string
		switch rapid.IntRange(0, 9).Draw(t, "shape") {
		case 0: // arbitrary digit string of any length
			s = rapid.StringMatching(`[0-9]{0,40}`).Draw(t, "digits")
		case 1: // 17..21 digits
			s = rapid.StringMatching(`[0-9]{17,21}`).Draw(t, "digits1721")
		case 2: // MaxInt +- k as decimal
			k := rapid.Int64Range(-2000, 2000).Draw(t, "k")
			v := new(big.Int).Add(vpMaxIntBig, big.NewInt(k))
			s = v.String()
		case 3: // (MaxInt/10)*10 + d and (MaxInt/10 +- j) followed by a digit
			j := rapid.Int64Range(-3, 3).Draw(t, "j")
			d := rapid.IntRange(0, 9).Draw(t, "d")
			v := new(big.Int).Add(big.NewInt(math.MaxInt/10), big.NewInt(j))
			s = v.String() + strconv.Itoa(d)
		case 4: // same number of digits as MaxInt, first digits equal to MaxInt's
			n := rapid.IntRange(0, len(maxs)).Draw(t, "prefix")
			s = maxs[:n] + rapid.StringMatching(fmt.Sprintf(`[0-9]{%d}`, len(maxs)-n)).Draw(t, "tail")
		case 5: // multiples of 2^64 and 2^63 neighbourhood (wrap-around values)
			m := rapid.Int64Range(1, 40).Draw(t, "m")
			k := rapid.Int64Range(-50, 50).Draw(t, "k")
			v := new(big.Int).Lsh(big.NewInt(m), 63)
			v.Add(v, big.NewInt(k))
			s = v.String()
		case 6: // small everyday numbers
			s = strconv.Itoa(rapid.IntRange(0, 1<<20).Draw(t, "small"))
		case 7: // powers of ten and neighbours
			e := rapid.IntRange(0, 25).Draw(t, "e")
			k := rapid.Int64Range(-2, 2).Draw(t, "k")
			v := new(big.Int).Exp(big.NewInt(10), big.NewInt(int64(e)), nil)
			v.Add(v, big.NewInt(k))
			if v.Sign() < 0 {
				v.SetInt64(0)
			}
			s = v.String()
		case 8: // leading zeros in front of any of the above shapes
			z := rapid.IntRange(1, 30).Draw(t, "zeros")
			k := rapid.Int64Range(-20, 20).Draw(t, "k")
			v := new(big.Int).Add(vpMaxIntBig, big.NewInt(k))
			if rapid.Bool().Draw(t, "smalltail") {
				v = big.NewInt(rapid.Int64Range(0, 1000).Draw(t, "tailv"))
			}
			s = strings.Repeat("0", z) + v.String()
		default: // 20..40 digit strings
			s = rapid.StringMatching(`[1-9][0-9]{19,39}`).Draw(t, "long")
		}
		// inject a non-digit sometimes
		if rapid.IntRange(0, 5).Draw(t, "inject") == 0 {
			pos := rapid.IntRange(0, len(s)).Draw(t, "pos")
			c := rapid.SampledFrom([]byte{'+', '-', ' ', 'x', 'a', '.', '/', ':', 0, 0xff, '\t', 'e'}).Draw(t, "c")
			s = s[:pos] + string([]byte{c}) + s[pos:]
		}
		return s
	})
}

func vpAllDigits(s string) bool {
	if s == "" {
		return false
	}
	for i := 0; i < len(s); i++ {
		if s[i] < '0' || s[i] > '9' {
			return false
		}
	}
	return true
}

func TestVP_C30_ParseUint(t *testing.T) {
	rapid.Check(t, func(t *rapid.T) {
		s := vpGenDigits().Draw(t, "s")
		got, err := ParseUint([]byte(s))
		wantOK := false
		var want int
		if vpAllDigits(s) {
			v, _ := new(big.Int).SetString(s, 10)
			if v.Cmp(vpMaxIntBig) <= 0 {
				wantOK = true
				want = int(v.Int64())
			}
		}
		class := "reject-nondigit"
		if vpAllDigits(s) {
			if wantOK {
				class = "accept"
			} else {
				class = "reject-overflow"
			}
		}
		vpCase("ParseUint/"+class, len(s) >= 17 || !vpAllDigits(s), s, func() string { return fmt.Sprintf("%q", s) })
		if wantOK {
			if err != nil {
				t.Fatalf("ParseUint(%q): unexpected error %v, want %d", s, err, want)
			}
			if got != want {
				t.Fatalf("ParseUint(%q) = %d, want %d", s, got, want)
			}
		} else {
			if err == nil {
				t.Fatalf("ParseUint(%q) = %d, nil error; want an error (value does not fit / not a decimal string)", s, got)
			}
			if got >= 0 {
				t.Fatalf("ParseUint(%q) returned non-negative %d together with error %v", s, got, err)
			}
		}
	})
}

// parseUintBuf: value and length of the longest digit prefix (used for Content-Length and ranges).
func TestVP_C30_ParseUintBuf(t *testing.T) {
	rapid.Check(t, func(t *rapid.T) {
		s := vpGenDigits().Draw(t, "s")
		n := 0
		for n < len(s) && s[n] >= '0' && s[n] <= '9' {
			n++
		}
		v, gotN, err := parseUintBuf([]byte(s))
		vpCase("parseUintBuf", n >= 17 || n < len(s), s, func() string { return fmt.Sprintf("%q", s) })
		if n == 0 {
			if err == nil {
				t.Fatalf("parseUintBuf(%q): no digits but no error (v=%d n=%d)", s, v, gotN)
			}
			return
		}
		bv, _ := new(big.Int).SetString(s[:n], 10)
		if bv.Cmp(vpMaxIntBig) > 0 {
			if err == nil {
				t.Fatalf("parseUintBuf(%q): prefix %s overflows int but got v=%d n=%d nil error", s, s[:n], v, gotN)
			}
			return
		}
		if err != nil {
			t.Fatalf("parseUintBuf(%q): unexpected error %v", s, err)
		}
		if v != int(bv.Int64()) || gotN != n {
			t.Fatalf("parseUintBuf(%q) = (%d,%d), want (%s,%d)", s, v, gotN, bv, n)
		}
	})
}

func vpGenInt() *rapid.Generator[int] {
	return rapid.Custom(func(t *rapid.T) int {
		switch rapid.IntRange(0, 4).Draw(t, "ishape") {
		case 0:
			return rapid.IntRange(0, math.MaxInt).Draw(t, "any")
		case 1:
			return math.MaxInt - rapid.IntRange(0, 4096).Draw(t, "nearmax")
		case 2:
			sh := rapid.IntRange(0, 62).Draw(t, "shift")
			k := rapid.IntRange(-3, 3).Draw(t, "k")
			v := (1 << uint(sh)) + k
			if v < 0 {
				v = 0
			}
			return v
		case 3:
			e := rapid.IntRange(0, 18).Draw(t, "e")
			v := 1
			for i := 0; i < e; i++ {
				v *= 10
			}
			v += rapid.IntRange(-2, 2).Draw(t, "k")
			if v < 0 {
				v = 0
			}
			return v
		default:
			return rapid.IntRange(0, 100000).Draw(t, "small")
		}
	})
}

func TestVP_C30_AppendParseRoundTrip(t *testing.T) {
	rapid.Check(t, func(t *rapid.T) {
		n := vpGenInt().Draw(t, "n")
		prefix := rapid.SliceOfN(rapid.Byte(), 0, 4).Draw(t, "prefix")
		out := AppendUint(append([]byte(nil), prefix...), n)
		vpCase("AppendUint/ParseUint", n > 9, strconv.Itoa(n), func() string { return strconv.Itoa(n) })
		if !bytes.Equal(out[:len(prefix)], prefix) {
			t.Fatalf("AppendUint clobbered dst prefix")
		}
		if string(out[len(prefix):]) != strconv.FormatInt(int64(n), 10) {
			t.Fatalf("AppendUint(%d) = %q", n, out[len(prefix):])
		}
		back, err := ParseUint(out[len(prefix):])
		if err != nil || back != n {
			t.Fatalf("ParseUint(AppendUint(%d)) = %d, %v", n, back, err)
		}
	})
}

func TestVP_C30_Hex(t *testing.T) {
	rapid.Check(t, func(t *rapid.T) {
		// (a) write -> read round trip for all sizes writeHexInt can emit within the platform limit
		n := vpGenInt().Draw(t, "n")
		limit := 1<<(4*uint(maxHexIntChars)) - 1
		var wb bytes.Buffer
		bw := bufio.NewWriter(&wb)
		if err := writeHexInt(bw, n); err != nil {
			t.Fatalf("writeHexInt(%d): %v", n, err)
		}
		bw.Flush()
		if want := strconv.FormatInt(int64(n), 16); wb.String() != want {
			t.Fatalf("writeHexInt(%d) wrote %q want %q", n, wb.String(), want)
		}
		term := rapid.SampledFrom([]string{"", "\r\n", ";x", " ", "g", "\n"}).Draw(t, "term")
		br := bufio.NewReaderSize(strings.NewReader(wb.String()+term), 16)
		got, err := readHexInt(br)
		if n <= limit {
			if err != nil || got != n {
				t.Fatalf("readHexInt(writeHexInt(%d)=%q) = %d, %v", n, wb.String(), got, err)
			}
			rest, _ := io.ReadAll(br)
			if string(rest) != term {
				t.Fatalf("readHexInt consumed past the number: rest %q want %q", rest, term)
			}
		} else if err == nil {
			t.Fatalf("readHexInt accepted %d hex chars (> maxHexIntChars=%d): %q -> %d", len(wb.String()), maxHexIntChars, wb.String(), got)
		}
		// (b) arbitrary hex strings vs strconv
		hs := rapid.StringMatching(`[0-9a-fA-F]{1,20}`).Draw(t, "hex")
		br = bufio.NewReaderSize(strings.NewReader(hs+term), 16)
		got, err = readHexInt(br)
		vpCase("hex", len(hs) >= maxHexIntChars-1 || n > 1<<32, hs+"|"+strconv.Itoa(n), func() string { return fmt.Sprintf("n=%d hex=%q term=%q", n, hs, term) })
		if len(hs) > maxHexIntChars {
			if err == nil {
				t.Fatalf("readHexInt(%q): %d hex chars accepted (limit %d) -> %d", hs, len(hs), maxHexIntChars, got)
			}
		} else {
			want, perr := strconv.ParseUint(hs, 16, 64)
			if perr != nil {
				t.Fatalf("oracle: %v", perr)
			}
			if err != nil || uint64(got) != want || got < 0 {
				t.Fatalf("readHexInt(%q) = %d, %v; want %d", hs, got, err, want)
			}
		}
	})
}

// Chunks written by writeChunk read back through fasthttp's chunk reader and through
// net/http's independent chunked reader with the same size and data.
func TestVP_C30_ChunkRoundTrip(t *testing.T) {
	rapid.Check(t, func(t *rapid.T) {
		nchunks := rapid.IntRange(1, 5).Draw(t, "nchunks")
		var wire bytes.Buffer
		bw := bufio.NewWriterSize(&wire, rapid.SampledFrom([]int{16, 64, 4096}).Draw(t, "wbuf"))
		var all []byte
		var sizes []int
		for i := 0; i < nchunks; i++ {
			sz := rapid.SampledFrom([]int{1, 2, 9, 10, 15, 16, 17, 255, 256, 257, 4095, 4096, 4097, 65535, 65536, 70000}).Draw(t, "size")
			if rapid.Bool().Draw(t, "anysize") {
				sz = rapid.IntRange(1, 20000).Draw(t, "sz")
			}
			b := bytes.Repeat([]byte{byte('a' + i)}, sz)
			// sprinkle CR/LF so a mis-sized chunk is not masked
			if sz > 4 {
				b[sz-1], b[sz-2], b[0] = '\n', '\r', '\r'
			}
			if err := writeChunk(bw, b); err != nil {
				t.Fatalf("writeChunk: %v", err)
			}
			all = append(all, b...)
			sizes = append(sizes, sz)
		}
		if err := writeChunk(bw, nil); err != nil {
			t.Fatalf("writeChunk(end): %v", err)
		}
		bw.Write(strCRLF) // empty trailer section terminator
		bw.Flush()
		vpCase("chunk", len(all) > 255, fmt.Sprint(sizes), func() string { return fmt.Sprintf("chunk sizes %v", sizes) })
		// fasthttp's reader
		br := bufio.NewReaderSize(bytes.NewReader(wire.Bytes()), rapid.SampledFrom([]int{16, 100, 4096}).Draw(t, "rbuf"))
		got, err := readBodyChunked(br, 0, nil)
		if err != nil {
			t.Fatalf("readBodyChunked: %v (sizes %v)", err, sizes)
		}
		if !bytes.Equal(got, all) {
			t.Fatalf("readBodyChunked returned %d bytes, want %d (sizes %v)", len(got), len(all), sizes)
		}
		// independent reader
		got2, err := io.ReadAll(httputil.NewChunkedReader(bytes.NewReader(wire.Bytes())))
		if err != nil {
			t.Fatalf("net/http chunked reader rejects writeChunk output: %v (sizes %v)", err, sizes)
		}
		if !bytes.Equal(got2, all) {
			t.Fatalf("net/http chunked reader decoded %d bytes, want %d", len(got2), len(all))
		}
	})
}

// 32-bit half: 386 binaries cannot run in this sandbox, so the driver derives an int32 instance of
// parseUintBuf from the current source text (harness/pregen/c30_int32.py) and the same generated
// search is run against a 32-bit reference.
func vpGenDigits32() *rapid.Generator[string] {
	maxs := strconv.Itoa(math.MaxInt32)
	return rapid.Custom(func(t *rapid.T) string {
		var s string
		switch rapid.IntRange(0, 7).Draw(t, "shape32") {
		case 0:
			s = rapid.StringMatching(`[0-9]{0,24}`).Draw(t, "digits")
		case 1:
			s = rapid.StringMatching(`[0-9]{8,12}`).Draw(t, "digits812")
		case 2:
			s = strconv.FormatInt(int64(math.MaxInt32)+rapid.Int64Range(-2000, 2000).Draw(t, "k"), 10)
		case 3:
			s = strconv.FormatInt(int64(math.MaxInt32/10)+rapid.Int64Range(-3, 3).Draw(t, "j"), 10) + strconv.Itoa(rapid.IntRange(0, 9).Draw(t, "d"))
		case 4:
			n := rapid.IntRange(0, len(maxs)).Draw(t, "prefix")
			s = maxs[:n] + rapid.StringMatching(fmt.Sprintf(`[0-9]{%d}`, len(maxs)-n)).Draw(t, "tail")
		case 5: // multiples of 2^32 / 2^31 neighbourhood: values that wrap back into range
			v := rapid.Int64Range(1, 4000).Draw(t, "m")<<31 + rapid.Int64Range(-50, 50).Draw(t, "k")
			s = strconv.FormatInt(v, 10)
		case 6:
			s = strings.Repeat("0", rapid.IntRange(1, 20).Draw(t, "zeros")) + strconv.FormatInt(int64(math.MaxInt32)+rapid.Int64Range(-20, 20).Draw(t, "k"), 10)
		default:
			s = strconv.Itoa(rapid.IntRange(0, 1<<20).Draw(t, "small"))
		}
		if rapid.IntRange(0, 6).Draw(t, "inject") == 0 {
			pos := rapid.IntRange(0, len(s)).Draw(t, "pos")
			s = s[:pos] + string([]byte{rapid.SampledFrom([]byte{'+', '-', ' ', 'x', '.', 0}).Draw(t, "c")}) + s[pos:]
		}
		return s
	})
}

func TestVP_C30_ParseUintBuf32(t *testing.T) {
	if !vpC30Have32 {
		vpNote("C30: the int32 instance of parseUintBuf could not be derived from the current source text; 32-bit half not checked in this run")
		t.Skip("no derived int32 instance")
	}
	max32 := big.NewInt(math.MaxInt32)
	rapid.Check(t, func(t *rapid.T) {
		s := vpGenDigits32().Draw(t, "s")
		n := 0
		for n < len(s) && s[n] >= '0' && s[n] <= '9' {
			n++
		}
		v, gotN, err := vpC30ParseUintBuf32([]byte(s))
		vpCase("parseUintBuf/int32-instance", n >= 9 || n < len(s), s, func() string { return fmt.Sprintf("%q", s) })
		if n == 0 {
			if err == nil {
				t.Fatalf("int32 parseUintBuf(%q): no digits but no error", s)
			}
			return
		}
		bv, _ := new(big.Int).SetString(s[:n], 10)
		if bv.Cmp(max32) > 0 {
			if err == nil {
				t.Fatalf("int32 instance of parseUintBuf(%q): prefix %s overflows a 32-bit int but got v=%d n=%d nil error", s, s[:n], v, gotN)
			}
			return
		}
		if err != nil {
			t.Fatalf("int32 parseUintBuf(%q): unexpected error %v", s, err)
		}
		if int64(v) != bv.Int64() || gotN != n {
			t.Fatalf("int32 parseUintBuf(%q) = (%d,%d), want (%s,%d)", s, v, gotN, bv, n)
		}
	})
}
