package fasthttp

// C05 — setter inputs cannot inject header lines or extra messages.
//
// A generated sequence of setter calls (RequestHeader/ResponseHeader/Request/Response/URI/
// RequestCtx) is fed byte strings rich in CR, LF, NUL, ':', SP and non-ASCII bytes and complete
// injection payloads; the message is serialised with Write and inspected by
//   (1) an own, deliberately simple splitter (first CRLFCRLF ends the head, lines split at CRLF,
//       field name = bytes before the first ':', body delimited by Content-Length / chunked),
//   (2) net/http's ReadRequest / ReadResponse as an independent peer,
//   (3) fasthttp's own reader as a third peer.
// Flagged: a bare CR or LF inside any line, a header line without ':', a peer-visible field name
// that is neither automatically managed nor derived from a name argument, more header lines than
// setter calls could have produced, a body boundary different from the body that was set, bytes
// after the end of the message (a second message). Allowed: Write returning an error, values
// being dropped, any neutralisation of CR/LF (replacement by any byte or deletion).

import (
	"bufio"
	"bytes"
	"fmt"
	"io"
	"net/http"
	"strconv"
	"strings"
	"sync"
	"testing"

	"pgregory.net/rapid"
)

var vpC05Benign = []string{"a", "abc", "x-y", "text/plain", "example.com", "/p/q", "k=v", "1", "42", "gzip",
	"close", "chunked", "foo bar", "HTTP/1.1", "HTTP/1.0", "GET", "POST", "Www.Example.ORG:8080", "/a?b=c#d",
	"http://h.example/x", "multipart/form-data; boundary=zz", "keep-alive", "0", "identity", "//other.example/z", "?q=2", "#frag", "rel/path"}

var vpC05CRLF = []string{"\r\n", "\n", "\r", "\n\r", "\r\r\n", "\r\n\r\n", "\n\n", "\r\n ", "\r\n\t", "\r\n\r", "\n\r\n"}

var vpC05Weird = []string{"\x00", ":", ": ", " ", "\t", ";", ",", "=", "\x80", "\xff", "\xc3\xa9", "\x0b", "\x0c",
	"\x7f", "\xc2\x85", "\xe2\x80\xa8", "\"", "\\", "%0d%0a", "%00", "\x01", "\x1f", "@", "/", "?", "#"}

// complete injection payloads; every one carries a field name "Inj-N" that is never used as a
// legitimate name, so an un-neutralised payload always shows up as a foreign field name.
var vpC05Inj = []string{
	"\r\nInj-1: v", "\nInj-2: v", "\rInj-3: v", "\r\nInj-4: v\r\n",
	"\r\n\r\nGET /inj5 HTTP/1.1\r\nHost: inj\r\nInj-5: v\r\n\r\n",
	"\r\nContent-Length: 0\r\n\r\nHTTP/1.1 200 OK\r\nContent-Length: 4\r\nInj-6: v\r\n\r\ninj6",
	"\r\nTransfer-Encoding: chunked\r\nInj-7: v", "\r\nContent-Length: 99\r\nInj-8: v", "\r\n Inj-9: folded",
	"\n\nInj-10: v\n\n", "\r\n0\r\n\r\nGET /inj11 HTTP/1.1\r\nInj-11: v\r\n\r\n", "\r\nInj-12:v\r\nInj-13:w",
	" HTTP/1.1\r\nInj-14: v\r\nX: ", "\r\nSet-Cookie: inj15=1\r\nInj-15: v", "\r\nHost: inj16\r\nInj-16: v",
}

var vpC05CustomNames = []string{"X-Foo", "x-bar", "Abc", "X_Y", "a.b", "X-Long-Custom-Name", "accept", "Accept-Encoding",
	"Cache-Control", "X-Forwarded-For", "Origin", "ETag", "Vary", "q", "X-1"}

var vpC05SpecialNames = []string{"Host", "User-Agent", "Content-Type", "Content-Length", "Connection", "Cookie",
	"Set-Cookie", "Transfer-Encoding", "Trailer", "Content-Encoding", "Server", "Date", "Referer", "Location",
	"Authorization", "Range", "Last-Modified", "Upgrade"}

var vpC05Bodies = []string{"hello", "GET /smug HTTP/1.1\r\nHost: s\r\nInj-20: v\r\n\r\n", "0\r\n\r\n",
	"HTTP/1.1 200 OK\r\nContent-Length: 0\r\nInj-21: v\r\n\r\n", "\r\n", "5\r\nhello\r\n0\r\n\r\n", "x"}

// names that fasthttp manages itself (may appear without having been passed as a name argument)
var vpC05AutoReq = map[string]bool{"host": true, "user-agent": true, "content-type": true, "content-length": true,
	"transfer-encoding": true, "connection": true, "trailer": true,
	// Request.Write derives "Authorization: Basic <base64>" from userinfo found in any URI argument
	"authorization": true}
var vpC05AutoResp = map[string]bool{"server": true, "date": true, "content-type": true, "content-length": true,
	"content-encoding": true, "transfer-encoding": true, "connection": true, "trailer": true}

type vpC05Case struct {
	t            *rapid.T
	profile      int // 0: CR/LF + payloads over otherwise header-safe bytes; 1: everything
	names        [][]byte
	auto         map[string]bool
	explicitCL   bool
	noSpecial    bool // RequestHeader.DisableSpecialHeader: framing fields are ordinary caller-managed headers
	framingTrick bool
	nameOps      int
	hostile      bool // some argument contains CR, LF or NUL
	injected     bool // some argument carries a complete injection payload
	log          []string
	body         []byte
	bodyMode     string
}

func (c *vpC05Case) allow(auto string) { c.auto[auto] = true }

func (c *vpC05Case) logf(format string, a ...any) { c.log = append(c.log, fmt.Sprintf(format, a...)) }

// arg draws one hostile byte string.
func (c *vpC05Case) arg(label string) []byte {
	t := c.t
	if rapid.IntRange(0, 9).Draw(t, label+"_plain") < 2 {
		return []byte(rapid.SampledFrom(vpC05Benign).Draw(t, label+"_benign"))
	}
	n := rapid.IntRange(1, 4).Draw(t, label+"_n")
	var b []byte
	for i := 0; i < n; i++ {
		hi := 79
		if c.profile == 1 {
			hi = 99
		}
		k := rapid.IntRange(0, hi).Draw(t, label+"_kind")
		switch {
		case k < 30:
			b = append(b, rapid.SampledFrom(vpC05Benign).Draw(t, label+"_b")...)
		case k < 55:
			b = append(b, rapid.SampledFrom(vpC05CRLF).Draw(t, label+"_crlf")...)
		case k < 80:
			b = append(b, rapid.SampledFrom(vpC05Inj).Draw(t, label+"_inj")...)
			c.injected = true
		case k < 95:
			b = append(b, rapid.SampledFrom(vpC05Weird).Draw(t, label+"_w")...)
		default:
			b = append(b, rapid.SliceOfN(rapid.Byte(), 1, 6).Draw(t, label+"_raw")...)
		}
	}
	if bytes.ContainsAny(b, "\r\n\x00") {
		c.hostile = true
	}
	return b
}

func vpC05RandCase(t *rapid.T, s string, label string) string {
	switch rapid.IntRange(0, 3).Draw(t, label+"_case") {
	case 0:
		return strings.ToLower(s)
	case 1:
		return strings.ToUpper(s)
	case 2:
		b := []byte(s)
		for i := range b {
			if i%2 == 1 {
				b[i] = toLowerTable[b[i]]
			} else {
				b[i] = toUpperTable[b[i]]
			}
		}
		return string(b)
	}
	return s
}

// name draws a header-name argument and records it as "set".
func (c *vpC05Case) name(label string) []byte {
	t := c.t
	var b []byte
	k := rapid.IntRange(0, 99).Draw(t, label+"_nkind")
	switch {
	case k < 45:
		b = []byte(vpC05RandCase(t, rapid.SampledFrom(vpC05CustomNames).Draw(t, label+"_custom"), label))
	case k < 70:
		b = []byte(vpC05RandCase(t, rapid.SampledFrom(vpC05SpecialNames).Draw(t, label+"_special"), label))
	case k < 85:
		// a plausible name with hostile bytes appended / prepended / in the middle
		base := rapid.SampledFrom(append(append([]string{}, vpC05CustomNames...), vpC05SpecialNames...)).Draw(t, label+"_base")
		h := c.arg(label + "_h")
		switch rapid.IntRange(0, 2).Draw(t, label+"_pos") {
		case 0:
			b = append([]byte(base), h...)
		case 1:
			b = append(append([]byte{}, h...), base...)
		default:
			m := len(base) / 2
			b = append(append(append([]byte{}, base[:m]...), h...), base[m:]...)
		}
	default:
		b = c.arg(label + "_hn")
	}
	c.recordName(b)
	return b
}

func (c *vpC05Case) recordName(b []byte) {
	c.names = append(c.names, append([]byte(nil), b...))
	c.nameOps++
	if bytes.ContainsAny(b, "\r\n\x00") {
		c.hostile = true
	}
	lb := bytes.ToLower(b)
	for _, f := range []string{"content-length", "transfer-encoding", "trailer"} {
		if bytes.Contains(lb, []byte(f)) && string(lb) != f {
			// e.g. "Content-Length\r" or "Content-Length:" (a peer cuts the name at the first ':'
			// and sees the framing field itself): that is a property of the name the caller chose,
			// not of value injection (DESIGN soundness choice) - the body boundary is not compared.
			c.framingTrick = true
		}
	}
}

// canon draws a name that is already in canonical form (the documented precondition of SetCanonical).
func (c *vpC05Case) canon(label string) []byte {
	all := append(append([]string{}, vpC05CustomNames...), vpC05SpecialNames...)
	s := rapid.SampledFrom(all).Draw(c.t, label+"_canon")
	b := []byte(s)
	upper := true
	for i, ch := range b {
		if upper {
			b[i] = toUpperTable[ch]
		} else {
			b[i] = toLowerTable[ch]
		}
		upper = ch == '-'
	}
	c.recordName(b)
	return b
}

func vpC05AllDigits(b []byte) bool {
	if len(b) == 0 {
		return false
	}
	for _, ch := range b {
		if ch < '0' || ch > '9' {
			return false
		}
	}
	return true
}

// noteKV records the consequences of a (name, value) pair that the model must know about.
func (c *vpC05Case) noteKV(k, v []byte) {
	tk := bytes.Trim(k, " \t\r\n")
	if strings.EqualFold(string(tk), "content-length") && vpC05AllDigits(bytes.Trim(v, " \t\r\n")) {
		// the caller declares the body length himself: framing is his explicit choice
		c.explicitCL = true
	}
	if c.noSpecial && (strings.EqualFold(string(tk), "content-length") || strings.EqualFold(string(tk), "transfer-encoding")) {
		// special handling disabled: the framing fields are written exactly as the caller names them
		c.explicitCL = true
	}
	if strings.EqualFold(string(tk), "trailer") {
		c.trailerArg(v)
	}
}

func (c *vpC05Case) trailerArg(v []byte) {
	c.allow("trailer")
	for _, p := range bytes.Split(v, []byte(",")) {
		c.names = append(c.names, append([]byte(nil), p...))
	}
	c.nameOps++
	if bytes.ContainsAny(v, "\r\n\x00") {
		c.hostile = true
	}
}

// vpC05Wild: does a match pattern b, where CR/LF in b stand for "zero or one arbitrary byte"
// (any neutralisation of CR/LF is acceptable).
func vpC05Wild(a, b []byte) bool {
	if len(b) == 0 {
		return len(a) == 0
	}
	if b[0] == '\r' || b[0] == '\n' {
		return vpC05Wild(a, b[1:]) || (len(a) > 0 && vpC05Wild(a[1:], b[1:]))
	}
	return len(a) > 0 && a[0] == b[0] && vpC05Wild(a[1:], b[1:])
}

func vpC05Squash(b []byte, keepCRLF bool) []byte {
	out := make([]byte, 0, len(b))
	for _, ch := range b {
		if ch == ' ' || ch == '\t' {
			continue
		}
		if !keepCRLF && (ch == '\r' || ch == '\n') {
			continue
		}
		if ch >= 'A' && ch <= 'Z' {
			ch += 'a' - 'A'
		}
		out = append(out, ch)
	}
	return out
}

// vpC05Derives: is the peer-visible field name p what a peer sees of name argument n?
// (case-insensitive, whitespace-insensitive, CR/LF neutralised in any way, cut at the first ':')
func vpC05Derives(p, n []byte) bool {
	if i := bytes.IndexByte(n, ':'); i >= 0 {
		n = n[:i]
	}
	return vpC05Wild(vpC05Squash(p, false), vpC05Squash(n, true))
}

func (c *vpC05Case) nameAllowed(p []byte) bool {
	lp := string(bytes.ToLower(bytes.Trim(p, " \t")))
	if c.auto[lp] {
		return true
	}
	for _, n := range c.names {
		if vpC05Derives(p, n) {
			return true
		}
	}
	return false
}

// ---------------------------------------------------------------------------------------------
// the own splitter

type vpC05Wire struct {
	first   []byte
	lines   [][]byte
	rest    []byte
	cl      []string
	te      []string
	trailer [][]byte // trailer lines of a chunked body
}

// vpC05SplitHead splits w at the first CRLFCRLF and checks the lines. It returns a complaint
// (empty when fine).
func (c *vpC05Case) splitHead(w []byte) (*vpC05Wire, string) {
	idx := bytes.Index(w, []byte("\r\n\r\n"))
	if idx < 0 {
		return nil, "serialised message has no CRLFCRLF head terminator"
	}
	m := &vpC05Wire{rest: w[idx+4:]}
	lines := bytes.Split(w[:idx], []byte("\r\n"))
	m.first = lines[0]
	m.lines = lines[1:]
	if bytes.ContainsAny(m.first, "\r\n") {
		return m, fmt.Sprintf("bare CR or LF inside the first line %q", m.first)
	}
	if msg := c.checkLines(m.lines, "header"); msg != "" {
		return m, msg
	}
	for _, l := range m.lines {
		if len(l) > 0 && (l[0] == ' ' || l[0] == '\t') {
			continue
		}
		i := bytes.IndexByte(l, ':')
		if i < 0 {
			continue
		}
		switch string(bytes.ToLower(l[:i])) {
		case "content-length":
			m.cl = append(m.cl, string(bytes.Trim(l[i+1:], " \t")))
		case "transfer-encoding":
			m.te = append(m.te, string(bytes.Trim(l[i+1:], " \t")))
		}
	}
	if len(m.lines) > c.nameOps+10 {
		return m, fmt.Sprintf("%d header lines but only %d name-carrying setter calls were made", len(m.lines), c.nameOps)
	}
	return m, ""
}

func (c *vpC05Case) checkLines(lines [][]byte, what string) string {
	for _, l := range lines {
		if bytes.ContainsAny(l, "\r\n") {
			return fmt.Sprintf("bare CR or LF inside %s line %q", what, l)
		}
		if len(l) > 0 && (l[0] == ' ' || l[0] == '\t') {
			continue // continuation of the previous line for a lenient peer: no field name of its own
		}
		i := bytes.IndexByte(l, ':')
		if i < 0 {
			return fmt.Sprintf("%s line without ':' (no setter writes one): %q", what, l)
		}
		if !c.nameAllowed(l[:i]) {
			return fmt.Sprintf("peer-visible %s field name %q was never set (line %q)", what, l[:i], l)
		}
	}
	return ""
}

// vpC05Dechunk decodes a chunked body with an own minimal decoder: returns data, trailer lines,
// remaining bytes.
func vpC05Dechunk(b []byte) (data []byte, trailer [][]byte, rest []byte, err string) {
	for {
		i := bytes.Index(b, []byte("\r\n"))
		if i < 0 {
			return nil, nil, nil, "chunk size line not terminated"
		}
		sz, e := strconv.ParseUint(string(b[:i]), 16, 31)
		if e != nil {
			return nil, nil, nil, fmt.Sprintf("bad chunk size line %q", b[:i])
		}
		b = b[i+2:]
		if sz == 0 {
			break
		}
		if uint64(len(b)) < sz+2 {
			return nil, nil, nil, "chunk data truncated"
		}
		data = append(data, b[:sz]...)
		if string(b[sz:sz+2]) != "\r\n" {
			return nil, nil, nil, "chunk data not followed by CRLF"
		}
		b = b[sz+2:]
	}
	for {
		i := bytes.Index(b, []byte("\r\n"))
		if i < 0 {
			return nil, nil, nil, "trailer section not terminated"
		}
		if i == 0 {
			return data, trailer, b[2:], ""
		}
		trailer = append(trailer, b[:i])
		b = b[i+2:]
	}
}

// checkBody verifies that the body boundary a peer derives from the head is the body that was set.
// noBody: the peer knows the message has no body (HEAD response, 1xx/204/304).
func (c *vpC05Case) checkBody(m *vpC05Wire, isReq, noBody bool) string {
	if c.explicitCL || c.framingTrick {
		return "" // the caller chose the framing himself (well-formed Content-Length value, or a framing field named through a hostile name argument)
	}
	if noBody {
		if len(m.rest) != 0 {
			return fmt.Sprintf("message has no body for the peer, but %d bytes follow the head: %q", len(m.rest), m.rest)
		}
		return ""
	}
	if len(m.te) > 0 {
		if len(m.te) > 1 || !strings.EqualFold(m.te[0], "chunked") {
			return fmt.Sprintf("unexpected Transfer-Encoding lines %q", m.te)
		}
		if len(m.cl) > 0 {
			return fmt.Sprintf("both Transfer-Encoding and Content-Length %q present", m.cl)
		}
		data, tr, rest, e := vpC05Dechunk(m.rest)
		if e != "" {
			return "chunked body does not decode: " + e
		}
		if msg := c.checkLines(tr, "trailer"); msg != "" {
			return msg
		}
		m.trailer = tr
		if !bytes.Equal(data, c.body) {
			return fmt.Sprintf("chunked body %q differs from the body that was set %q", data, c.body)
		}
		if len(rest) != 0 {
			return fmt.Sprintf("%d bytes after the end of the chunked message: %q", len(rest), rest)
		}
		return ""
	}
	if len(m.cl) > 0 {
		for _, v := range m.cl[1:] {
			if v != m.cl[0] {
				return fmt.Sprintf("conflicting Content-Length lines %q", m.cl)
			}
		}
		n, e := strconv.ParseUint(m.cl[0], 10, 31)
		if e != nil {
			return fmt.Sprintf("Content-Length %q is not a number", m.cl[0])
		}
		if int(n) != len(c.body) {
			return fmt.Sprintf("declared Content-Length %d but the body that was set has %d bytes", n, len(c.body))
		}
		if !bytes.Equal(m.rest, c.body) {
			return fmt.Sprintf("bytes after the head %q differ from the body that was set %q", m.rest, c.body)
		}
		return ""
	}
	if isReq {
		if len(m.rest) != 0 {
			return fmt.Sprintf("request declares no body but %d bytes follow the head: %q", len(m.rest), m.rest)
		}
		return ""
	}
	if !bytes.Equal(m.rest, c.body) {
		return fmt.Sprintf("close-delimited body %q differs from the body that was set %q", m.rest, c.body)
	}
	return ""
}

// ---------------------------------------------------------------------------------------------
// generic header setter ops, shared between request and response headers

type vpC05Hdr interface {
	Set(key, value string)
	SetBytesK(key []byte, value string)
	SetBytesV(key string, value []byte)
	SetBytesKV(key, value []byte)
	SetCanonical(key, value []byte)
	Add(key, value string)
	AddBytesK(key []byte, value string)
	AddBytesV(key string, value []byte)
	AddBytesKV(key, value []byte)
	SetContentType(string)
	SetContentTypeBytes([]byte)
	SetTrailer(string) error
	SetTrailerBytes([]byte) error
	AddTrailer(string) error
	AddTrailerBytes([]byte) error
}

func (c *vpC05Case) genericOp(h vpC05Hdr, hn string) {
	t := c.t
	op := rapid.IntRange(0, 14).Draw(t, "gop")
	switch op {
	case 4:
		k, v := c.canon("k"), c.arg("v")
		c.noteKV(k, v)
		c.logf("%s.SetCanonical(%q, %q)", hn, k, v)
		h.SetCanonical(k, v)
		return
	case 9, 10:
		v := c.arg("ct")
		c.allow("content-type")
		c.logf("%s.SetContentType[Bytes](%q)", hn, v)
		if op == 9 {
			h.SetContentType(string(v))
		} else {
			h.SetContentTypeBytes(v)
		}
		return
	case 11, 12, 13, 14:
		v := c.arg("tr")
		if rapid.Bool().Draw(t, "trlist") {
			v = append(append(v, ", "...), c.arg("tr2")...)
		}
		c.trailerArg(v)
		c.logf("%s.trailer op %d (%q)", hn, op, v)
		switch op {
		case 11:
			_ = h.SetTrailer(string(v))
		case 12:
			_ = h.SetTrailerBytes(v)
		case 13:
			_ = h.AddTrailer(string(v))
		default:
			_ = h.AddTrailerBytes(v)
		}
		return
	}
	k, v := c.name("k"), c.arg("v")
	c.noteKV(k, v)
	switch op {
	case 0:
		c.logf("%s.Set(%q, %q)", hn, k, v)
		h.Set(string(k), string(v))
	case 1:
		c.logf("%s.SetBytesK(%q, %q)", hn, k, v)
		h.SetBytesK(k, string(v))
	case 2:
		c.logf("%s.SetBytesV(%q, %q)", hn, k, v)
		h.SetBytesV(string(k), v)
	case 3:
		c.logf("%s.SetBytesKV(%q, %q)", hn, k, v)
		h.SetBytesKV(k, v)
	case 5:
		c.logf("%s.Add(%q, %q)", hn, k, v)
		h.Add(string(k), string(v))
	case 6:
		c.logf("%s.AddBytesK(%q, %q)", hn, k, v)
		h.AddBytesK(k, string(v))
	case 7:
		c.logf("%s.AddBytesV(%q, %q)", hn, k, v)
		h.AddBytesV(string(k), v)
	default:
		c.logf("%s.AddBytesKV(%q, %q)", hn, k, v)
		h.AddBytesKV(k, v)
	}
}

// vpC05Guard runs a setter and turns a panic inside it into a rejection (C05 is not about panics;
// they are noted in the evidence).
func (c *vpC05Case) guard(f func()) (panicked bool) {
	defer func() {
		if r := recover(); r != nil {
			panicked = true
			vpNote("C05: a setter panicked (treated as rejection): %v", r)
			vpExtra("c05_setter_panics", 1)
		}
	}()
	f()
	return false
}

// ---------------------------------------------------------------------------------------------
// requests

func (c *vpC05Case) requestOp(req *Request) {
	t := c.t
	if rapid.IntRange(0, 9).Draw(t, "rgeneric") < 4 {
		c.genericOp(&req.Header, "req.Header")
		return
	}
	op := rapid.IntRange(0, 17).Draw(t, "rop")
	alt := rapid.Bool().Draw(t, "alt")
	switch op {
	case 0:
		v := c.arg("v")
		c.logf("req.Header.SetHost[Bytes](%q)", v)
		if alt {
			req.Header.SetHost(string(v))
		} else {
			req.Header.SetHostBytes(v)
		}
	case 1:
		v := c.arg("v")
		c.logf("req.Header.SetUserAgent[Bytes](%q)", v)
		if alt {
			req.Header.SetUserAgent(string(v))
		} else {
			req.Header.SetUserAgentBytes(v)
		}
	case 2:
		v := c.arg("v")
		c.allow("referer")
		c.nameOps++
		c.logf("req.Header.SetReferer[Bytes](%q)", v)
		if alt {
			req.Header.SetReferer(string(v))
		} else {
			req.Header.SetRefererBytes(v)
		}
	case 3:
		v := c.arg("v")
		c.allow("content-encoding")
		c.nameOps++
		c.logf("req.Header.SetContentEncoding[Bytes](%q)", v)
		if alt {
			req.Header.SetContentEncoding(string(v))
		} else {
			req.Header.SetContentEncodingBytes(v)
		}
	case 4:
		v := c.arg("v")
		c.logf("req.Header.SetMethod[Bytes](%q)", v)
		if alt {
			req.Header.SetMethod(string(v))
		} else {
			req.Header.SetMethodBytes(v)
		}
	case 5:
		v := c.arg("v")
		c.logf("req.Header.SetRequestURI[Bytes](%q)", v)
		if alt {
			req.Header.SetRequestURI(string(v))
		} else {
			req.Header.SetRequestURIBytes(v)
		}
	case 6:
		v := c.arg("v")
		c.logf("req.Header.SetProtocol[Bytes](%q)", v)
		if alt {
			req.Header.SetProtocol(string(v))
		} else {
			req.Header.SetProtocolBytes(v)
		}
	case 7:
		v := c.arg("v")
		c.logf("req.Header.SetMultipartFormBoundary[Bytes](%q)", v)
		if alt {
			req.Header.SetMultipartFormBoundary(string(v))
		} else {
			req.Header.SetMultipartFormBoundaryBytes(v)
		}
	case 8:
		k, v := c.arg("ck"), c.arg("cv")
		c.allow("cookie")
		c.nameOps++
		c.logf("req.Header.SetCookie*(%q, %q)", k, v)
		switch rapid.IntRange(0, 2).Draw(t, "cvar") {
		case 0:
			req.Header.SetCookie(string(k), string(v))
		case 1:
			req.Header.SetCookieBytesK(k, string(v))
		default:
			req.Header.SetCookieBytesKV(k, v)
		}
	case 9:
		v := c.arg("v")
		c.logf("req.SetHost[Bytes](%q)", v)
		if alt {
			req.SetHost(string(v))
		} else {
			req.SetHostBytes(v)
		}
	case 10:
		v := c.arg("v")
		c.logf("req.SetRequestURI[Bytes](%q)", v)
		if alt {
			req.SetRequestURI(string(v))
		} else {
			req.SetRequestURIBytes(v)
		}
	case 11:
		v := c.arg("v")
		which := rapid.IntRange(0, 6).Draw(t, "uriop")
		c.logf("req.URI() setter %d (%q)", which, v)
		u := req.URI()
		switch which {
		case 0:
			u.SetHost(string(v))
		case 1:
			u.SetPath(string(v))
		case 2:
			u.SetQueryString(string(v))
		case 3:
			u.SetHash(string(v))
		case 4:
			u.SetScheme(string(v))
		case 5:
			u.SetUsername(string(v))
			c.allow("authorization")
			c.nameOps++
		default:
			u.SetPassword(string(v))
			c.allow("authorization")
			c.nameOps++
		}
	case 12:
		k, v := c.arg("qk"), c.arg("qv")
		c.logf("req.URI().QueryArgs().Add(%q, %q)", k, v)
		req.URI().QueryArgs().AddBytesKV(k, v)
	case 13:
		v := c.arg("v")
		c.logf("req.URI().Update(%q)", v)
		req.URI().UpdateBytes(v)
	case 14:
		v := c.arg("v")
		c.logf("req.SetURI(parsed %q)", v)
		var u URI
		if err := u.Parse(nil, v); err == nil {
			req.SetURI(&u)
		} else {
			u.Reset()
			u.SetHostBytes(v)
			u.SetPathBytes(v)
			req.SetURI(&u)
		}
	case 15:
		v := c.arg("v")
		c.logf("req.URI().SetPathBytes/SetQueryStringBytes/SetHashBytes(%q)", v)
		u := req.URI()
		u.SetPathBytes(v)
		u.SetQueryStringBytes(v)
		u.SetHashBytes(v)
	case 16:
		v := c.arg("v")
		c.logf("req.URI().SetHostBytes+SetSchemeBytes(%q)", v)
		req.URI().SetHostBytes(v)
		req.URI().SetSchemeBytes(v)
	default:
		c.genericOp(&req.Header, "req.Header")
	}
}

func (c *vpC05Case) drawBody(chunkedAllowed bool) {
	t := c.t
	k := rapid.IntRange(0, 99).Draw(t, "bodymode")
	switch {
	case k < 35:
		c.bodyMode = "none"
	case k < 70:
		c.bodyMode = "bytes"
	case k < 85 || !chunkedAllowed:
		c.bodyMode = "stream-sized"
	default:
		c.bodyMode = "stream-chunked"
	}
	if c.bodyMode == "none" {
		c.body = nil
		return
	}
	if rapid.Bool().Draw(t, "bodydict") {
		c.body = []byte(rapid.SampledFrom(vpC05Bodies).Draw(t, "body"))
	} else {
		c.body = rapid.SliceOfN(rapid.Byte(), 1, 40).Draw(t, "bodyraw")
	}
}

func vpC05NewCase(t *rapid.T, auto map[string]bool) *vpC05Case {
	c := &vpC05Case{t: t, auto: map[string]bool{}}
	for k := range auto {
		c.auto[k] = true
	}
	if rapid.IntRange(0, 9).Draw(t, "profile") < 4 {
		c.profile = 1
	}
	return c
}

func TestVP_C05_Request(t *testing.T) {
	rapid.Check(t, func(t *rapid.T) {
		c := vpC05NewCase(t, vpC05AutoReq)
		var req Request
		mode := rapid.IntRange(0, 19).Draw(t, "hmode")
		modeName := "norm"
		switch mode {
		case 0, 1:
			req.Header.DisableNormalizing()
			modeName = "nonorm"
		case 2:
			req.Header.DisableSpecialHeader()
			modeName = "nospecial"
			c.noSpecial = true
		case 3:
			req.Header.SetNoDefaultContentType(true)
			modeName = "nodefct"
		}
		// a sane starting point so that most messages can be written at all
		switch rapid.IntRange(0, 19).Draw(t, "init") {
		case 0:
		case 1, 2, 3, 4, 5, 6, 7:
			req.Header.SetHost("example.com")
			req.Header.SetRequestURI("/p")
		default:
			req.SetRequestURI("http://example.com/dir/p?q=1")
		}
		if m := rapid.SampledFrom([]string{"", "", "GET", "POST", "PUT", "HEAD", "DELETE", "OPTIONS"}).Draw(t, "method"); m != "" {
			req.Header.SetMethod(m)
		}
		c.drawBody(true)
		if mode == 2 {
			// with special headers disabled the caller is responsible for the framing fields himself
			c.bodyMode, c.body = "none", nil
		}
		switch c.bodyMode {
		case "bytes":
			req.SetBody(c.body)
		case "stream-sized":
			req.SetBodyStream(bytes.NewReader(c.body), len(c.body))
		case "stream-chunked":
			req.SetBodyStream(bytes.NewReader(c.body), -1)
		}
		nops := rapid.IntRange(1, 5).Draw(t, "nops")
		panicked := false
		for i := 0; i < nops && !panicked; i++ {
			panicked = c.guard(func() { c.requestOp(&req) })
		}
		writeReq := &req
		if !panicked && rapid.IntRange(0, 9).Draw(t, "copy") == 0 {
			var cp Request
			if c.bodyMode == "none" || c.bodyMode == "bytes" {
				req.CopyTo(&cp)
				writeReq = &cp
				c.logf("CopyTo")
			}
		}
		var buf bytes.Buffer
		var err error
		if !panicked {
			bw := bufio.NewWriterSize(&buf, rapid.SampledFrom([]int{16, 4096}).Draw(t, "wbuf"))
			panicked = c.guard(func() {
				err = writeReq.Write(bw)
				if err == nil {
					err = bw.Flush()
				}
			})
		}
		outcome := "written"
		if panicked {
			outcome = "panic"
		} else if err != nil {
			outcome = "rejected"
		}
		w := buf.Bytes()
		sample := func() string {
			return fmt.Sprintf("%s | mode=%s body=%s %q -> %s %q", strings.Join(c.log, "; "), modeName, c.bodyMode, c.body, outcome, w)
		}
		class := fmt.Sprintf("req/%s/%s/%s", modeName, c.bodyMode, outcome)
		vpCase(class, c.hostile, strings.Join(c.log, ";"), sample)
		if c.injected {
			vpExtra("c05_req_cases_with_injection_payload", 1)
		}
		if outcome != "written" {
			return // rejection is always allowed
		}
		m, msg := c.splitHead(w)
		if msg == "" {
			msg = c.checkBody(m, true, false)
		}
		if msg != "" {
			t.Fatalf("C05 request: %s\nops: %s\nwire: %q", msg, strings.Join(c.log, "; "), w)
		}
		if c.explicitCL {
			vpExtra("c05_req_explicit_content_length", 1)
		}
		// ---- net/http as an independent peer
		br := bufio.NewReader(bytes.NewReader(w))
		hr, herr := http.ReadRequest(br)
		if herr != nil {
			vpExtra("c05_req_nethttp_rejects", 1)
		} else {
			vpExtra("c05_req_nethttp_accepts", 1)
			for k := range hr.Header {
				if !c.nameAllowed([]byte(k)) {
					t.Fatalf("C05 request: net/http sees header %q which was never set\nops: %s\nwire: %q", k, strings.Join(c.log, "; "), w)
				}
			}
			if !c.explicitCL && !c.framingTrick {
				teOn10 := len(m.te) > 0 && !hr.ProtoAtLeast(1, 1)
				body, rerr := io.ReadAll(hr.Body)
				if rerr != nil {
					// the peer rejects the message while reading body/trailers (e.g. NUL in a
					// trailer value): a rejection, the own splitter has already checked the framing
					vpExtra("c05_req_nethttp_rejects_in_body", 1)
				} else if !teOn10 {
					if !bytes.Equal(body, c.body) {
						t.Fatalf("C05 request: net/http sees body %q, set body %q\nops: %s\nwire: %q", body, c.body, strings.Join(c.log, "; "), w)
					}
					for k := range hr.Trailer {
						if !c.nameAllowed([]byte(k)) {
							t.Fatalf("C05 request: net/http sees trailer %q which was never set\nwire: %q", k, w)
						}
					}
					if _, perr := br.Peek(1); perr != io.EOF {
						rest, _ := io.ReadAll(br)
						t.Fatalf("C05 request: net/http finds bytes after the message (a second message): %q\nops: %s\nwire: %q", rest, strings.Join(c.log, "; "), w)
					}
				}
			}
		}
		// ---- fasthttp's own reader as a third peer
		var rq Request
		br = bufio.NewReader(bytes.NewReader(w))
		if ferr := rq.Read(br); ferr != nil {
			vpExtra("c05_req_fasthttp_rejects", 1)
		} else {
			if rq.MayContinue() {
				if cerr := rq.ContinueReadBody(br, 0); cerr != nil {
					return
				}
			}
			vpExtra("c05_req_fasthttp_accepts", 1)
			for k := range rq.Header.All() {
				if !c.nameAllowed(k) {
					t.Fatalf("C05 request: fasthttp reader sees header %q which was never set\nops: %s\nwire: %q", k, strings.Join(c.log, "; "), w)
				}
			}
			if !c.explicitCL && !c.framingTrick && !(len(m.te) > 0 && !vpC05WireIs11(m.first, true)) {
				if !bytes.Equal(rq.Body(), c.body) {
					t.Fatalf("C05 request: fasthttp reader sees body %q, set body %q\nops: %s\nwire: %q", rq.Body(), c.body, strings.Join(c.log, "; "), w)
				}
				if _, perr := br.Peek(1); perr != io.EOF {
					rest, _ := io.ReadAll(br)
					t.Fatalf("C05 request: fasthttp reader leaves bytes after the message: %q\nops: %s\nwire: %q", rest, strings.Join(c.log, "; "), w)
				}
			}
		}
	})
}

// ---------------------------------------------------------------------------------------------
// responses

var vpC05Shifters = []string{"HTTP/1.1 204 No", "HTTP/1.1\r304 NM", "HTTP/1.0\n100 C", "HTTP/1.1 101", "HTTP/1.1 200 OK", "HTTP/1.1\r\n204", "HTTP/1.1 404 "}

// Known finding C05/response-protocol-space: ResponseHeader.SetProtocol writes its argument in
// front of " <code> <reason>"; when the argument (after CR/LF became SP) has the form
// "<version> DDD..." a peer reads DDD as the status code, and for 1xx/204/304 stops at the head, so
// the real body is parsed as a second message.
const vpC05KeyProtoSpace = "C05/response-protocol-space"

func vpC05NeutralisedProtocol(v []byte) []byte {
	b := append([]byte(nil), v...)
	for i, ch := range b {
		if ch == '\r' || ch == '\n' {
			b[i] = ' '
		}
	}
	return b
}

// vpC05ProtocolCarriesStatus: would a peer find a 3-digit status code inside the protocol argument?
func vpC05ProtocolCarriesStatus(v []byte) bool {
	return vpC05PeerStatus(append(vpC05NeutralisedProtocol(v), " 200 OK"...)) >= 0 &&
		bytes.ContainsAny(v, " \r\n")
}

func vpC05BreakProtocolStatus(v []byte) []byte {
	b := append([]byte(nil), v...)
	for i, ch := range b {
		if ch == ' ' || ch == '\r' || ch == '\n' {
			b[i] = '_'
		}
	}
	return b
}

var vpC05ProtoProbeOnce sync.Once

func vpC05ProbeProtocolSpace() {
	vpC05ProtoProbeOnce.Do(func() {
		var resp Response
		resp.SetBody([]byte("HTTP/1.1 200 OK\r\nContent-Length: 0\r\nInj-30: v\r\n\r\n"))
		resp.Header.SetProtocol([]byte("HTTP/1.1\r204 x"))
		var buf bytes.Buffer
		bw := bufio.NewWriter(&buf)
		if err := resp.Write(bw); err != nil {
			vpProbe(vpC05KeyProtoSpace, false, "Write rejects the protocol: "+err.Error())
			return
		}
		bw.Flush()
		br := bufio.NewReader(bytes.NewReader(buf.Bytes()))
		r1, err := http.ReadResponse(br, &http.Request{Method: "GET"})
		if err != nil || r1.StatusCode != 204 {
			vpProbe(vpC05KeyProtoSpace, false, fmt.Sprintf("peer does not see 204 (err=%v) wire=%q", err, buf.Bytes()))
			return
		}
		io.Copy(io.Discard, r1.Body)
		r2, err := http.ReadResponse(br, &http.Request{Method: "GET"})
		present := err == nil && r2.Header.Get("Inj-30") == "v"
		vpProbe(vpC05KeyProtoSpace, present, fmt.Sprintf("SetProtocol(%q)+SetStatusCode(200)+body: net/http reads status 204 and then a second response from the body (second=%v); wire=%q", "HTTP/1.1\r204 x", present, buf.Bytes()))
	})
}

var vpC05BodyCodes = []int{200, 201, 206, 301, 302, 404, 500, 600, 999}
var vpC05AnyCodes = []int{0, 200, 201, 204, 206, 301, 302, 304, 400, 404, 500, 100, 101, 103, 199, 999, 1000, 99, -1, 600, 7}

func (c *vpC05Case) responseOp(ctx *RequestCtx) {
	t := c.t
	resp := &ctx.Response
	if rapid.IntRange(0, 9).Draw(t, "rgeneric") < 4 {
		c.genericOp(&resp.Header, "resp.Header")
		return
	}
	op := rapid.IntRange(0, 10).Draw(t, "rop")
	alt := rapid.Bool().Draw(t, "alt")
	switch op {
	case 0:
		v := c.arg("v")
		c.logf("resp.Header.SetContentEncoding[Bytes](%q)", v)
		if alt {
			resp.Header.SetContentEncoding(string(v))
		} else {
			resp.Header.SetContentEncodingBytes(v)
		}
	case 1:
		v := c.arg("v")
		c.logf("resp.Header.SetServer[Bytes](%q)", v)
		if alt {
			resp.Header.SetServer(string(v))
		} else {
			resp.Header.SetServerBytes(v)
		}
	case 2:
		v := c.arg("v")
		c.logf("resp.Header.SetStatusMessage(%q)", v)
		resp.Header.SetStatusMessage(v)
	case 3:
		v := c.arg("v")
		if rapid.IntRange(0, 9).Draw(t, "shift") < 4 {
			// first-line token shifters: a protocol argument that carries its own status code
			v = append([]byte(rapid.SampledFrom(vpC05Shifters).Draw(t, "shifter")), v...)
		}
		if vpC05ProtocolCarriesStatus(v) {
			vpC05ProbeProtocolSpace()
			if vpKnownOpen(vpC05KeyProtoSpace) {
				// known finding: steer away from exactly this class (break the embedded status token)
				vpExclude(vpC05KeyProtoSpace)
				v = vpC05BreakProtocolStatus(v)
			}
		}
		c.logf("resp.Header.SetProtocol(%q)", v)
		resp.Header.SetProtocol(v)
	case 4:
		codes := vpC05AnyCodes
		if c.bodyMode == "stream-chunked" {
			// a chunked stream on a body-less status makes fasthttp emit the (empty) trailer
			// section after the head; that has nothing to do with setter arguments
			codes = vpC05BodyCodes
		}
		code := rapid.SampledFrom(codes).Draw(t, "code")
		c.logf("resp.SetStatusCode(%d)", code)
		if alt {
			resp.SetStatusCode(code)
		} else {
			resp.Header.SetStatusCode(code)
		}
	case 5:
		var ck Cookie
		k, v, d, p := c.arg("ck"), c.arg("cv"), c.arg("cd"), c.arg("cp")
		c.allow("set-cookie")
		c.nameOps++
		c.logf("resp.Header.SetCookie(key=%q value=%q domain=%q path=%q)", k, v, d, p)
		if alt {
			ck.SetKey(string(k))
			ck.SetValue(string(v))
			ck.SetDomain(string(d))
			ck.SetPath(string(p))
		} else {
			ck.SetKeyBytes(k)
			ck.SetValueBytes(v)
			ck.SetDomainBytes(d)
			ck.SetPathBytes(p)
		}
		if rapid.Bool().Draw(t, "cflags") {
			ck.SetSecure(true)
			ck.SetHTTPOnly(true)
			ck.SetSameSite(CookieSameSiteLaxMode)
			ck.SetMaxAge(10)
		}
		resp.Header.SetCookie(&ck)
	case 6:
		k := c.arg("ck")
		c.allow("set-cookie")
		c.nameOps++
		c.logf("resp.Header.DelClientCookie[Bytes](%q)", k)
		if alt {
			resp.Header.DelClientCookie(string(k))
		} else {
			resp.Header.DelClientCookieBytes(k)
		}
	case 7:
		v := c.arg("v")
		code := rapid.SampledFrom([]int{301, 302, 303, 307, 308, 200, 0}).Draw(t, "rcode")
		c.allow("location")
		c.nameOps++
		c.logf("ctx.Redirect[Bytes](%q, %d)", v, code)
		if alt {
			ctx.Redirect(string(v), code)
		} else {
			ctx.RedirectBytes(v, code)
		}
	case 8:
		v := c.arg("v")
		c.logf("ctx.SetContentType[Bytes](%q)", v)
		if alt {
			ctx.SetContentType(string(v))
		} else {
			ctx.SetContentTypeBytes(v)
		}
	case 9:
		v := c.arg("v")
		c.allow("vary")
		c.nameOps++
		c.logf("resp.Header.addVaryBytes(%q)", v)
		resp.Header.addVaryBytes(v)
	default:
		c.genericOp(&resp.Header, "resp.Header")
	}
}

// vpC05WireIs11 reports whether the first line announces exactly HTTP/1.1. Chunked coding on any
// other version (which only the caller's own SetProtocol argument can produce) is read
// differently by different peers (net/http and fasthttp ignore it on HTTP/1.0), so the peers'
// view of the body is not compared there; the own splitter still checks the message.
func vpC05WireIs11(first []byte, isReq bool) bool {
	if isReq {
		i := bytes.LastIndexByte(first, ' ')
		return i >= 0 && string(first[i+1:]) == "HTTP/1.1"
	}
	i := bytes.IndexByte(first, ' ')
	return i >= 0 && string(first[:i]) == "HTTP/1.1"
}

// vpC05PeerStatus parses the status line the way a (lenient) peer does: version 1*SP 3DIGIT [SP reason].
func vpC05PeerStatus(first []byte) int {
	i := bytes.IndexByte(first, ' ')
	if i < 0 {
		return -1
	}
	rest := first[i+1:]
	for len(rest) > 0 && rest[0] == ' ' {
		rest = rest[1:] // lenient peers (net/http, fasthttp) skip a run of SP after the version
	}
	tok := rest
	if j := bytes.IndexByte(rest, ' '); j >= 0 {
		tok = rest[:j]
	}
	if len(tok) != 3 || !vpC05AllDigits(tok) {
		return -1
	}
	n, _ := strconv.Atoi(string(tok))
	return n
}

func TestVP_C05_Response(t *testing.T) {
	rapid.Check(t, func(t *rapid.T) {
		c := vpC05NewCase(t, vpC05AutoResp)
		var ctx RequestCtx
		var rq Request
		rq.SetRequestURI("http://example.com/dir/page?x=1")
		ctx.Init(&rq, nil, nil)
		resp := &ctx.Response
		mode := rapid.IntRange(0, 19).Draw(t, "hmode")
		modeName := "norm"
		switch mode {
		case 0, 1:
			resp.Header.DisableNormalizing()
			modeName = "nonorm"
		case 2:
			resp.Header.SetNoDefaultContentType(true)
			modeName = "nodefct"
		}
		c.drawBody(true)
		head := false
		if c.bodyMode != "stream-chunked" && rapid.IntRange(0, 9).Draw(t, "head") == 0 {
			head = true
			resp.SkipBody = true
		}
		switch c.bodyMode {
		case "bytes":
			resp.SetBody(c.body)
		case "stream-sized":
			resp.SetBodyStream(bytes.NewReader(c.body), len(c.body))
		case "stream-chunked":
			resp.SetBodyStream(bytes.NewReader(c.body), -1)
		}
		nops := rapid.IntRange(1, 5).Draw(t, "nops")
		panicked := false
		for i := 0; i < nops && !panicked; i++ {
			panicked = c.guard(func() { c.responseOp(&ctx) })
		}
		var buf bytes.Buffer
		var err error
		if !panicked {
			bw := bufio.NewWriterSize(&buf, rapid.SampledFrom([]int{16, 4096}).Draw(t, "wbuf"))
			panicked = c.guard(func() {
				err = resp.Write(bw)
				if err == nil {
					err = bw.Flush()
				}
			})
		}
		outcome := "written"
		if panicked {
			outcome = "panic"
		} else if err != nil {
			outcome = "rejected"
		}
		w := buf.Bytes()
		sample := func() string {
			return fmt.Sprintf("%s | mode=%s head=%v body=%s %q -> %s %q", strings.Join(c.log, "; "), modeName, head, c.bodyMode, c.body, outcome, w)
		}
		class := fmt.Sprintf("resp/%s/%s/%s", modeName, c.bodyMode, outcome)
		vpCase(class, c.hostile, strings.Join(c.log, ";"), sample)
		if c.injected {
			vpExtra("c05_resp_cases_with_injection_payload", 1)
		}
		if outcome != "written" {
			return
		}
		m, msg := c.splitHead(w)
		peerCode := -1
		if m != nil {
			peerCode = vpC05PeerStatus(m.first)
		}
		if msg == "" && peerCode >= 0 {
			noBody := head || peerCode/100 == 1 || peerCode == 204 || peerCode == 304
			msg = c.checkBody(m, false, noBody)
		}
		if msg != "" {
			t.Fatalf("C05 response: %s\nops: %s\nwire: %q", msg, strings.Join(c.log, "; "), w)
		}
		if peerCode < 0 {
			vpExtra("c05_resp_status_line_unparseable_for_peer", 1)
		}
		// ---- net/http
		method := "GET"
		if head {
			method = "HEAD"
		}
		br := bufio.NewReader(bytes.NewReader(w))
		hr, herr := http.ReadResponse(br, &http.Request{Method: method})
		if herr != nil {
			vpExtra("c05_resp_nethttp_rejects", 1)
		} else {
			vpExtra("c05_resp_nethttp_accepts", 1)
			for k := range hr.Header {
				if !c.nameAllowed([]byte(k)) {
					t.Fatalf("C05 response: net/http sees header %q which was never set\nops: %s\nwire: %q", k, strings.Join(c.log, "; "), w)
				}
			}
			if !c.explicitCL && !c.framingTrick {
				body, rerr := io.ReadAll(hr.Body)
				noBody := head || hr.StatusCode/100 == 1 || hr.StatusCode == 204 || hr.StatusCode == 304
				if len(m.te) > 0 && !hr.ProtoAtLeast(1, 1) {
					// net/http deliberately ignores Transfer-Encoding on HTTP/1.0 messages and reads
					// until close; the protocol was the caller's explicit choice
					noBody = true
					vpExtra("c05_resp_chunked_on_http10", 1)
				}
				if rerr != nil {
					// rejection by the peer while reading body/trailers; framing was checked by the own splitter
					vpExtra("c05_resp_nethttp_rejects_in_body", 1)
				} else {
					if !noBody && !bytes.Equal(body, c.body) {
						t.Fatalf("C05 response: net/http sees body %q, set body %q\nops: %s\nwire: %q", body, c.body, strings.Join(c.log, "; "), w)
					}
					for k := range hr.Trailer {
						if !c.nameAllowed([]byte(k)) {
							t.Fatalf("C05 response: net/http sees trailer %q which was never set\nwire: %q", k, w)
						}
					}
					if _, perr := br.Peek(1); perr != io.EOF {
						rest, _ := io.ReadAll(br)
						t.Fatalf("C05 response: net/http finds bytes after the message (a second message): %q\nops: %s\nwire: %q", rest, strings.Join(c.log, "; "), w)
					}
				}
			}
		}
		// ---- fasthttp's own reader
		var rs Response
		rs.SkipBody = head
		br = bufio.NewReader(bytes.NewReader(w))
		if ferr := rs.Read(br); ferr != nil {
			vpExtra("c05_resp_fasthttp_rejects", 1)
		} else {
			vpExtra("c05_resp_fasthttp_accepts", 1)
			for k := range rs.Header.All() {
				if !c.nameAllowed(k) {
					t.Fatalf("C05 response: fasthttp reader sees header %q which was never set\nops: %s\nwire: %q", k, strings.Join(c.log, "; "), w)
				}
			}
			if !c.explicitCL && !c.framingTrick && !(len(m.te) > 0 && !vpC05WireIs11(m.first, false)) {
				code := rs.StatusCode()
				noBody := head || code/100 == 1 || code == 204 || code == 304
				if !noBody && !bytes.Equal(rs.Body(), c.body) {
					t.Fatalf("C05 response: fasthttp reader sees body %q, set body %q\nops: %s\nwire: %q", rs.Body(), c.body, strings.Join(c.log, "; "), w)
				}
				if _, perr := br.Peek(1); perr != io.EOF {
					rest, _ := io.ReadAll(br)
					t.Fatalf("C05 response: fasthttp reader leaves bytes after the message: %q\nops: %s\nwire: %q", rest, strings.Join(c.log, "; "), w)
				}
			}
		}
	})
}
