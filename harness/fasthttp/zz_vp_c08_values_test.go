package fasthttp

// C08 — slice parsers: Cookie.ParseBytes, URI.Parse, Args.ParseBytes, ParseByteRange,
// VisitHeaderParams, Request.MultipartFormWithLimit, ParseHTTPDate, ParseIPv4, ParseUint, ParseUfloat.
//
// Oracles: no panic, termination (watchdog), and "no over-read" in the form it takes for a function
// that receives a slice: the input is placed at the start of a larger array whose spare capacity is
// filled with a canary; the canary must be untouched afterwards (nothing written behind the input)
// and the result must be identical for two different canary fillings (nothing read behind it).

import (
	"bytes"
	"compress/gzip"
	"fmt"
	"io"
	"net"
	"net/http"
	"sort"
	"strings"
	"testing"
	"time"

	"pgregory.net/rapid"
)

const vpC08CanaryLen = 48

type vpC08ValTarget struct {
	name string
	// gen returns an input, an auxiliary integer (meaning depends on the target) and the origin label
	gen func(t *rapid.T) (in []byte, aux int, origin string)
	// run parses in (len(in) == cap is NOT guaranteed) and renders everything the parser returned
	run func(in []byte, aux int) (render string, accepted bool)
	// noCanary: the API copies its input before parsing, a canary behind it is meaningless
	noCanary bool
}

// vpC08ValRun runs the target once with the given canary filling.
func vpC08ValRun(tg *vpC08ValTarget, in []byte, aux int, fill byte) (render string, accepted, canaryTouched bool) {
	buf := make([]byte, len(in)+vpC08CanaryLen)
	copy(buf, in)
	for i := len(in); i < len(buf); i++ {
		buf[i] = fill
	}
	done := vpC08Guard(tg.name, in)
	render, accepted = tg.run(buf[:len(in)], aux)
	done()
	for i := len(in); i < len(buf); i++ {
		if buf[i] != fill {
			canaryTouched = true
		}
	}
	return
}

// vpC08ValCheck evaluates one input; returns a complaint or "".
func vpC08ValCheck(tg *vpC08ValTarget, in []byte, aux int, fillA, fillB byte) (complaint string, accepted bool) {
	rA, acc, touched := vpC08ValRun(tg, in, aux, fillA)
	if strings.Contains(rA, "VP-CALLED-AFTER-STOP") {
		return fmt.Sprintf("%s called the visitor again after it returned false: %s", tg.name, rA), acc
	}
	if tg.noCanary {
		rB, _, _ := vpC08ValRun(tg, in, aux, fillA)
		if rA != rB {
			return fmt.Sprintf("%s: two runs on the same input differ:\n%s\nvs\n%s", tg.name, rA, rB), acc
		}
		return "", acc
	}
	if touched {
		return fmt.Sprintf("%s wrote behind the end of its input slice (canary in the spare capacity changed)", tg.name), acc
	}
	if fillB == fillA {
		fillB ^= 0x5a
	}
	rB, _, touchedB := vpC08ValRun(tg, in, aux, fillB)
	if touchedB {
		return fmt.Sprintf("%s wrote behind the end of its input slice (canary in the spare capacity changed)", tg.name), acc
	}
	if rA != rB {
		return fmt.Sprintf("%s: the result depends on bytes behind the end of the input slice (spare capacity filled with %q vs %q):\n%s\nvs\n%s", tg.name, fillA, fillB, rA, rB), acc
	}
	return "", acc
}

var vpC08Fills = []byte{'0', 'a', ';', '=', '&', '%', ' ', ':', '\n', 0, 0xff, '"', '.', '-', '/'}

func vpC08ValTest(t *testing.T, tg *vpC08ValTarget) {
	rapid.Check(t, func(t *rapid.T) {
		in, aux, origin := tg.gen(t)
		fa := rapid.SampledFrom(vpC08Fills).Draw(t, "fillA")
		fb := rapid.SampledFrom(vpC08Fills).Draw(t, "fillB")
		complaint, accepted := vpC08ValCheck(tg, in, aux, fa, fb)
		class := tg.name + "/rejected-or-empty"
		if accepted {
			class = tg.name + "/accepted"
		}
		vpCase(class+" ["+origin+"]", accepted || origin != "raw", fmt.Sprintf("%d|%s", aux, in), func() string { return fmt.Sprintf("aux=%d in=%q", aux, in) })
		if complaint != "" {
			t.Fatalf("%s\ninput=%q aux=%d", complaint, in, aux)
		}
	})
}

// vpC08Finish applies the common last steps of every value generator: optional byte mutation, or a
// raw byte string instead of the grammar product.
func vpC08Finish(t *rapid.T, s string, rawMax int) ([]byte, string) {
	switch k := rapid.IntRange(0, 19).Draw(t, "vorigin"); {
	case k == 19:
		return rapid.SliceOfN(rapid.Byte(), 0, rawMax).Draw(t, "vraw"), "raw"
	case k >= 13:
		return vpC08Mutate(t, []byte(s)), "grammar+mutated"
	default:
		return []byte(s), "grammar"
	}
}

func vpC08Pick(t *rapid.T, label string, xs ...string) string {
	return rapid.SampledFrom(xs).Draw(t, label)
}

// vpC08PickV picks among the first nValid (well-formed) alternatives when clean, among all otherwise.
func vpC08PickV(t *rapid.T, label string, clean bool, nValid int, xs ...string) string {
	if clean {
		xs = xs[:nValid]
	}
	return rapid.SampledFrom(xs).Draw(t, label)
}

// vpC08Clean decides whether a generator builds a well-formed instance (about 60 %).
func vpC08Clean(t *rapid.T) bool { return rapid.IntRange(0, 9).Draw(t, "clean") < 6 }

// ---- Cookie ----------------------------------------------------------------------------------

func vpC08GenCookie(t *rapid.T) ([]byte, int, string) {
	var parts []string
	parts = append(parts, vpC08Pick(t, "ck", "k", "session", "", "a b", "k\"", "__Host-x", "ключ")+vpC08Pick(t, "ceq", "=", "=", "=", "", " = ")+
		vpC08Pick(t, "cv", "v", "", "\"quoted\"", "a=b=c", "v v", "a,b", "%41", "\"unterminated", strings.Repeat("x", 300)))
	n := rapid.IntRange(0, 5).Draw(t, "nattr")
	for i := 0; i < n; i++ {
		parts = append(parts, vpC08Pick(t, "attr", "Path=/", "path=/a/b", "Path=", "Domain=example.com", "domain=.EXAMPLE.com", "Domain=a b", "Max-Age=3600", "max-age=0",
			"Max-Age=-1", "Max-Age=99999999999999999999", "Max-Age=1x", "Expires=Tue, 10 Nov 2009 23:00:00 GMT", "expires=Tue, 10-Nov-2009 23:00:00 GMT", "Expires=garbage",
			"Expires=", "HttpOnly", "httponly", "Secure", "secure", "SameSite=Lax", "samesite=strict", "SameSite=None", "SameSite", "SameSite=x", "Partitioned", "partitioned",
			"unknown=1", "=", "", ";", "Path=/\x00", "Priority=High"))
	}
	s := strings.Join(parts, vpC08Pick(t, "csep", "; ", "; ", ";", " ;  ", ";;"))
	in, origin := vpC08Finish(t, s, 120)
	return in, 0, origin
}

func vpC08RunCookie(in []byte, _ int) (string, bool) {
	var c Cookie
	err := c.ParseBytes(in)
	out := c.AppendBytes(nil) // serialising whatever was parsed must not panic either
	return fmt.Sprintf("err=%v key=%q value=%q expire=%d maxage=%d domain=%q path=%q httponly=%v secure=%v samesite=%d partitioned=%v ser=%q",
		err != nil, c.Key(), c.Value(), c.Expire().UnixNano(), c.MaxAge(), c.Domain(), c.Path(), c.HTTPOnly(), c.Secure(), c.SameSite(), c.Partitioned(), out), err == nil
}

// ---- URI -------------------------------------------------------------------------------------

func vpC08GenURI(t *rapid.T) ([]byte, int, string) {
	var b strings.Builder
	b.WriteString(vpC08Pick(t, "scheme", "http://", "https://", "", "", "//", "HTTP://", "ws://", "ht tp://", "://", "a+b.c-d://", "1http://", "http:/", "http:"))
	if rapid.IntRange(0, 5).Draw(t, "userinfo") == 5 {
		b.WriteString(vpC08Pick(t, "ui", "user@", "user:pass@", ":@", "u%40ser:p%3Ass@", "a@b@"))
	}
	if rapid.IntRange(0, 3).Draw(t, "v6host") == 0 {
		b.WriteString(vpC08GenV6Host(t))
	} else {
		b.WriteString(vpC08Pick(t, "host", "example.com", "EXAMPLE.com:8080", "", "[::1]", "[::1]:80", "[::1", "::1]", "1.2.3.4", "a%41.com", "a b.com", "ex%zzample", "xn--e1afmkfd.xn--p1ai",
			"host:notaport", "host:", "[fe80::1%25eth0]", "[v1.x]"))
	}
	for i, n := 0, rapid.IntRange(0, 5).Draw(t, "nseg"); i < n; i++ {
		b.WriteString(vpC08Pick(t, "segsep", "/", "/", "//", "\\", "/./", "/../"))
		b.WriteString(vpC08Pick(t, "seg", "a", "b c", "%2e", "%2E%2e", "..", ".", "", "%", "%4", "%zz", "%00", "%2f", "x;y=1", "ü", "+", "index.html", strings.Repeat("p", 200)))
	}
	if rapid.IntRange(0, 2).Draw(t, "hasq") == 2 {
		b.WriteString("?" + vpC08Pick(t, "q", "a=1&b=2", "", "?", "a=%zz", "x=http://z", "a=1#notfrag", "q=a+b%20c", "&&=&"))
	}
	if rapid.IntRange(0, 3).Draw(t, "hash") == 3 {
		b.WriteString("#" + vpC08Pick(t, "frag", "frag", "", "#", "a?b", "%zz"))
	}
	in, origin := vpC08Finish(t, b.String(), 120)
	return in, rapid.IntRange(0, 3).Draw(t, "hostsel"), origin
}

// vpC08GenV6Host builds a bracketed host from the pieces of the IPv6 literal grammar, well-formed or
// not: groups of 0-5 hex digits, single and double colons in any position (leading, trailing,
// repeated), an embedded IPv4 tail, a zone, a port.
func vpC08GenV6Host(t *rapid.T) string {
	var b strings.Builder
	b.WriteString(vpC08Pick(t, "v6open", "[", "[", "[", "[[", ""))
	for i, n := 0, rapid.IntRange(0, 9).Draw(t, "v6groups"); i < n; i++ {
		b.WriteString(vpC08Pick(t, "v6grp", "", "0", "1", "db8", "fe80", "FFFF", "12345", "g", "2001"))
		b.WriteString(vpC08Pick(t, "v6sep", ":", ":", ":", "::", "", ":::"))
	}
	b.WriteString(vpC08Pick(t, "v6tail", "", "", "1", "ffff", ":", "1.2.3.4", "1.2.3", "256.1.1.1", "1.2.3.4:"))
	b.WriteString(vpC08Pick(t, "v6zone", "", "", "", "%25en0", "%25", "%en0", "%2"))
	b.WriteString(vpC08Pick(t, "v6close", "]", "]", "]", "", "]]"))
	b.WriteString(vpC08Pick(t, "v6port", "", "", ":80", ":", ":x"))
	return b.String()
}

var vpC08URIHosts = [][]byte{nil, []byte("example.com"), []byte("h:8080"), []byte("[::1]")}

func vpC08RunURI(in []byte, aux int) (string, bool) {
	var u URI
	err := u.Parse(vpC08URIHosts[aux&3], in)
	if err != nil {
		return "err", false
	}
	return fmt.Sprintf("scheme=%q host=%q path=%q orig=%q query=%q hash=%q user=%q pass=%q full=%q requri=%q nargs=%d last=%q",
		u.Scheme(), u.Host(), u.Path(), u.PathOriginal(), u.QueryString(), u.Hash(), u.Username(), u.Password(), u.FullURI(), u.RequestURI(), u.QueryArgs().Len(), u.LastPathSegment()), true
}

// ---- Args ------------------------------------------------------------------------------------

func vpC08GenArgs(t *rapid.T) ([]byte, int, string) {
	var parts []string
	for i, n := 0, rapid.IntRange(0, 6).Draw(t, "nargs"); i < n; i++ {
		parts = append(parts, vpC08Pick(t, "ak", "a", "b", "", "k%20x", "k+y", "%", "%4", "%zz", "k%00", "=", "ключ", strings.Repeat("k", 100))+
			vpC08Pick(t, "aeq", "=", "=", "", "==")+vpC08Pick(t, "av", "1", "", "v%26w", "a+b", "%", "%f", "%gg", "x=y", "&", strings.Repeat("v", 200)))
	}
	s := strings.Join(parts, vpC08Pick(t, "asep", "&", "&", "&&", ";", "&amp;"))
	in, origin := vpC08Finish(t, s, 120)
	return in, 0, origin
}

func vpC08RunArgs(in []byte, _ int) (string, bool) {
	var a Args
	a.ParseBytes(in)
	var b strings.Builder
	n := 0
	for k, v := range a.All() {
		fmt.Fprintf(&b, "%q=%q;", k, v)
		n++
	}
	fmt.Fprintf(&b, " len=%d str=%q", a.Len(), a.String())
	return b.String(), n > 0
}

// ---- ParseByteRange --------------------------------------------------------------------------

func vpC08GenRange(t *rapid.T) ([]byte, int, string) {
	clean := vpC08Clean(t)
	num := func(l string) string {
		return vpC08PickV(t, l, clean, 7, "0", "1", "9", "10", "99", "100", "007", "", "18446744073709551616", "9223372036854775807", "9223372036854775808", "-1", "+1", " 1", "1 ", "x")
	}
	s := vpC08PickV(t, "unit", clean, 1, "bytes", "bytes", "bytes", "Bytes", "byte", "items", "") + vpC08PickV(t, "req", clean, 1, "=", "=", "=", "", " = ", ":")
	switch rapid.IntRange(0, 4).Draw(t, "rshape") {
	case 0, 3:
		s += num("a") + "-" + num("b")
	case 1:
		s += "-" + num("suffix")
	case 2:
		s += num("a") + "-"
	default:
		if clean {
			s += num("a") + "-" + num("b")
		} else if rapid.Bool().Draw(t, "multi") {
			s += num("a") + "-" + num("b") + "," + num("c") + "-" + num("d")
		} else {
			s += num("a")
		}
	}
	in, origin := vpC08Finish(t, s, 40)
	cl := rapid.SampledFrom([]int{100, 101, 1 << 30, 10, 1, 0, -1}).Draw(t, "clen")
	return in, cl, origin
}

func vpC08RunRange(in []byte, aux int) (string, bool) {
	s, e, err := ParseByteRange(in, aux)
	return fmt.Sprintf("%d %d %v", s, e, err != nil), err == nil
}

// ---- VisitHeaderParams -----------------------------------------------------------------------

func vpC08GenParams(t *rapid.T) ([]byte, int, string) {
	clean := vpC08Clean(t)
	var b strings.Builder
	b.WriteString(vpC08PickV(t, "mt", clean, 5, "text/plain", "multipart/form-data", "*/*", "", "attachment", "a;b"))
	for i, n := 0, rapid.IntRange(0, 5).Draw(t, "nparam"); i < n; i++ {
		b.WriteString(vpC08PickV(t, "psep", clean, 3, "; ", ";", ";  ", " ;", ";;"))
		b.WriteString(vpC08PickV(t, "pk", clean, 5, "charset", "boundary", "q", "filename", "name*", "", "k k", "k\""))
		b.WriteString(vpC08PickV(t, "peq", clean, 1, "=", "=", "=", "", " = "))
		b.WriteString(vpC08PickV(t, "pv", clean, 6, "utf-8", "0.9", "\"quoted\"", "\"a\\\"b\"", "\"a;b=c\"", "\"\"", "\"unterminated", "\"\\", "\"", "", "a b", "x\"y", "\"tr\\"))
	}
	in, origin := vpC08Finish(t, b.String(), 80)
	return in, rapid.SampledFrom([]int{1 << 20, 1 << 20, 1 << 20, 0, 1, 2}).Draw(t, "stopafter"), origin
}

func vpC08RunParams(in []byte, aux int) (string, bool) {
	var b strings.Builder
	calls, afterStop := 0, 0
	stopped := false
	VisitHeaderParams(in, func(k, v []byte) bool {
		if stopped {
			afterStop++
		}
		if calls < 4096 { // (a runaway visitor loop must end in the watchdog, not in an out-of-memory kill)
			fmt.Fprintf(&b, "%q=%q;", k, v)
		}
		calls++
		if calls > aux {
			stopped = true
			return false
		}
		return true
	})
	if afterStop > 0 {
		fmt.Fprintf(&b, " VP-CALLED-AFTER-STOP=%d", afterStop)
	}
	return b.String(), calls > 0
}

// ---- MultipartFormWithLimit ------------------------------------------------------------------

func vpC08GenMultipartBody(t *rapid.T) ([]byte, int, string) {
	clean := vpC08Clean(t)
	var b strings.Builder
	b.WriteString(vpC08PickV(t, "pre", clean, 3, "", "", "preamble\r\n", "\r\n"))
	for i, n := 0, rapid.IntRange(0, 4).Draw(t, "nparts"); i < n; i++ {
		b.WriteString(vpC08PickV(t, "delim", clean, 1, "--xyz\r\n", "--xyz\r\n", "--xyz\n", "--xyz  \r\n", "--xyzz\r\n", "--xy\r\n"))
		b.WriteString(vpC08PickV(t, "cd", clean, 5, "Content-Disposition: form-data; name=\"a\"\r\n", "Content-Disposition: form-data; name=\"f\"; filename=\"x.txt\"\r\nContent-Type: text/plain\r\n",
			"content-disposition: form-data; name=a\r\n", "Content-Disposition: form-data; name=\"q\"\r\nContent-Transfer-Encoding: quoted-printable\r\n",
			"Content-Disposition: form-data; name=\"f\"; filename=\"\"\r\n", "Content-Disposition: form-data\r\n", "Content-Disposition: attachment; name=\"z\"\r\n", "X-Other: 1\r\n", "", "garbage\r\n"))
		b.WriteString(vpC08PickV(t, "hend", clean, 1, "\r\n", "\r\n", "\n", ""))
		b.WriteString(vpC08PickV(t, "pbody", clean, 5, "value", "", "line1\r\nline2", "=41=\r\n", strings.Repeat("v", 500), "--xyz", "\r\n--xy", "a\x00b"))
		b.WriteString(vpC08PickV(t, "pend", clean, 1, "\r\n", "\r\n", "\n", ""))
	}
	b.WriteString(vpC08PickV(t, "close", clean, 3, "--xyz--\r\n", "--xyz--", "--xyz--\r\nepilogue", "--xyz-\r\n", ""))
	in, origin := vpC08Finish(t, b.String(), 200)
	// aux: low 4 bits select content-type / encoding variant, the rest is the limit
	variant := rapid.SampledFrom([]int{0, 0, 0, 0, 1, 2, 3, 4, 5, 6, 7, 8, 9, 10, 11, 12, 13, 14, 15}).Draw(t, "mpvariant")
	limit := rapid.SampledFrom([]int{1 << 20, 1 << 20, 1 << 20, len(in) + 1, len(in), len(in) - 1, 64, 1}).Draw(t, "mplimit")
	if limit < 1 {
		limit = 1
	}
	return in, limit<<4 | variant, origin
}

// Content-Type values for the multipart helper: the boundary parameter well-formed, quoted, half-quoted, empty, absent
var vpC08MPContentTypes = []string{
	0: "multipart/form-data; boundary=xyz", 1: "multipart/form-data; charset=utf-8; boundary=\"xyz\"", 2: "multipart/form-data; boundary=xyz",
	3: "multipart/form-data; boundary=", 4: "multipart/form-data; boundary=\"", 5: "multipart/form-data; boundary=\";",
	6: "multipart/form-data; boundary=\"; foo=bar", 7: "multipart/form-data; boundary=\"\"", 8: "multipart/form-data; boundary=\"xyz",
	9: "multipart/form-data; boundary=xyz\"", 10: "multipart/form-data", 11: "multipart/form-data; boundary=\"x\\\"yz\"",
	12: "multipart/form-data; boundary=  xyz", 13: "multipart/form-data; BOUNDARY=xyz", 14: "multipart/form-data;boundary=xyz;", 15: "multipart/form-data; charset=\"; boundary=xyz",
}

func vpC08RunMultipart(in []byte, aux int) (string, bool) {
	variant, limit := aux&15, aux>>4
	if limit < 1 {
		limit = 1
	}
	var req Request
	req.Header.SetContentType(vpC08MPContentTypes[variant])
	body := in
	if variant == 2 {
		var zb bytes.Buffer
		zw := gzip.NewWriter(&zb)
		zw.Write(in)
		zw.Close()
		body = zb.Bytes()
		req.Header.Set("Content-Encoding", "gzip")
	}
	req.SetBody(body)
	f, err := req.MultipartFormWithLimit(limit)
	if err != nil {
		return "err", false
	}
	defer req.RemoveMultipartFormFiles()
	var b strings.Builder
	keys := make([]string, 0, len(f.Value))
	for k := range f.Value {
		keys = append(keys, k)
	}
	sort.Strings(keys)
	for _, k := range keys {
		fmt.Fprintf(&b, "%q=%q;", k, f.Value[k])
	}
	keys = keys[:0]
	for k := range f.File {
		keys = append(keys, k)
	}
	sort.Strings(keys)
	for _, k := range keys {
		for _, fh := range f.File[k] {
			var content []byte
			if fd, err := fh.Open(); err == nil {
				content, _ = io.ReadAll(fd)
				fd.Close()
			}
			fmt.Fprintf(&b, "file %q %q %d %q;", k, fh.Filename, fh.Size, content)
		}
	}
	return b.String(), true
}

// ---- scalars ---------------------------------------------------------------------------------

func vpC08GenDate(t *rapid.T) ([]byte, int, string) {
	var s string
	if vpC08Clean(t) {
		// a well-formed IMF-fixdate of a generated instant (formatted by the standard library)
		sec := rapid.Int64Range(-2000000000, 253402300799).Draw(t, "unix")
		s = time.Unix(sec, 0).UTC().Format(http.TimeFormat)
	} else {
		s = vpC08Pick(t, "wd", "Mon", "Tue", "Sun", "mon", "Xxx", "Monday", "") + vpC08Pick(t, "wsep", ", ", ", ", ",", " ") +
			vpC08Pick(t, "day", "02", "31", "00", "32", "2", "  ", "1x") + vpC08Pick(t, "dsep", " ", " ", "-", "") +
			vpC08Pick(t, "mon", "Jan", "Feb", "Dec", "jan", "Foo", "13") + vpC08Pick(t, "msep", " ", " ", "-") +
			vpC08Pick(t, "year", "2006", "1970", "9999", "0000", "06", "20060", "-001") + " " +
			vpC08Pick(t, "time", "15:04:05", "23:59:60", "24:00:00", "00:00:00", "15:04", "15:04:05.5", "1:2:3", "::") +
			vpC08Pick(t, "tz", " GMT", " GMT", " UTC", " gmt", "", " +0000", " GMT ")
	}
	in, origin := vpC08Finish(t, s, 40)
	return in, 0, origin
}

func vpC08RunDate(in []byte, _ int) (string, bool) {
	tm, err := ParseHTTPDate(in)
	if err != nil {
		return "err", false
	}
	return fmt.Sprint(tm.UnixNano()), true
}

func vpC08GenIPv4(t *rapid.T) ([]byte, int, string) {
	clean := vpC08Clean(t)
	oct := func(l string) string {
		return vpC08PickV(t, l, clean, 6, "0", "1", "127", "255", "10", "99", "256", "999", "01", "001", "", "1e1", "-1", " 1", "0x1", "4294967296", "18446744073709551617")
	}
	s := oct("o1")
	ndots := 3
	if !clean {
		ndots = rapid.SampledFrom([]int{3, 3, 3, 3, 2, 4, 0}).Draw(t, "ndots")
	}
	for i := 0; i < ndots; i++ {
		s += vpC08PickV(t, "dot", clean, 1, ".", ".", ".", "..", ":") + oct("o")
	}
	in, origin := vpC08Finish(t, s, 24)
	return in, rapid.IntRange(0, 3).Draw(t, "dstkind"), origin
}

func vpC08RunIPv4(in []byte, aux int) (string, bool) {
	var dst net.IP
	switch aux & 3 {
	case 1:
		dst = make(net.IP, 4)
	case 2:
		dst = make(net.IP, 16)
	case 3:
		dst = make(net.IP, 2, 8)
	}
	ip, err := ParseIPv4(dst, in)
	if err != nil {
		return "err", false
	}
	return fmt.Sprintf("%d %v", len(ip), []byte(ip)), true
}

func vpC08GenNumber(t *rapid.T) ([]byte, int, string) {
	clean := vpC08Clean(t)
	s := vpC08PickV(t, "int", clean, 5, "0", "1", "42", "007", "9223372036854775807", "9223372036854775808", "18446744073709551616", "", strings.Repeat("9", 40), "-1", "+1", " 1", "1 ")
	if !clean || rapid.IntRange(0, 3).Draw(t, "isfloat") == 3 {
		if rapid.Bool().Draw(t, "frac") {
			s += vpC08PickV(t, "point", clean, 1, ".", ".", "..", ",") + vpC08PickV(t, "fracd", clean, 3, "5", "0", "000001", "", strings.Repeat("3", 40), "5.5")
		}
		if rapid.IntRange(0, 2).Draw(t, "exp") == 2 {
			s += vpC08Pick(t, "e", "e", "E") + vpC08PickV(t, "esign", clean, 3, "", "-", "+", "--") + vpC08PickV(t, "expd", clean, 3, "0", "3", "10", "308", "400", "99999999999999999999", "")
		}
	}
	in, origin := vpC08Finish(t, s, 30)
	return in, 0, origin
}

func vpC08RunUint(in []byte, _ int) (string, bool) {
	v, err := ParseUint(in)
	return fmt.Sprintf("%d %v", v, err != nil), err == nil
}

func vpC08RunUfloat(in []byte, _ int) (string, bool) {
	v, err := ParseUfloat(in)
	return fmt.Sprintf("%x %v", v, err != nil), err == nil
}

var (
	vpC08TgCookie    = &vpC08ValTarget{name: "Cookie.ParseBytes", gen: vpC08GenCookie, run: vpC08RunCookie}
	vpC08TgURI       = &vpC08ValTarget{name: "URI.Parse", gen: vpC08GenURI, run: vpC08RunURI}
	vpC08TgArgs      = &vpC08ValTarget{name: "Args.ParseBytes", gen: vpC08GenArgs, run: vpC08RunArgs}
	vpC08TgRange     = &vpC08ValTarget{name: "ParseByteRange", gen: vpC08GenRange, run: vpC08RunRange}
	vpC08TgParams    = &vpC08ValTarget{name: "VisitHeaderParams", gen: vpC08GenParams, run: vpC08RunParams}
	vpC08TgMultipart = &vpC08ValTarget{name: "Request.MultipartFormWithLimit", gen: vpC08GenMultipartBody, run: vpC08RunMultipart, noCanary: true}
	vpC08TgDate      = &vpC08ValTarget{name: "ParseHTTPDate", gen: vpC08GenDate, run: vpC08RunDate}
	vpC08TgIPv4      = &vpC08ValTarget{name: "ParseIPv4", gen: vpC08GenIPv4, run: vpC08RunIPv4}
	vpC08TgUint      = &vpC08ValTarget{name: "ParseUint", gen: vpC08GenNumber, run: vpC08RunUint}
	vpC08TgUfloat    = &vpC08ValTarget{name: "ParseUfloat", gen: vpC08GenNumber, run: vpC08RunUfloat}
)

func TestVP_C08_Val_Cookie(t *testing.T)    { vpC08ValTest(t, vpC08TgCookie) }
func TestVP_C08_Val_URI(t *testing.T)       { vpC08ValTest(t, vpC08TgURI) }
func TestVP_C08_Val_Args(t *testing.T)      { vpC08ValTest(t, vpC08TgArgs) }
func TestVP_C08_Val_ByteRange(t *testing.T) { vpC08ValTest(t, vpC08TgRange) }
func TestVP_C08_Val_HeaderParams(t *testing.T) {
	vpC08ValTest(t, vpC08TgParams)
}
func TestVP_C08_Val_Multipart(t *testing.T) { vpC08ValTest(t, vpC08TgMultipart) }
func TestVP_C08_Val_HTTPDate(t *testing.T)  { vpC08ValTest(t, vpC08TgDate) }
func TestVP_C08_Val_IPv4(t *testing.T)      { vpC08ValTest(t, vpC08TgIPv4) }
func TestVP_C08_Val_Uint(t *testing.T)      { vpC08ValTest(t, vpC08TgUint) }
func TestVP_C08_Val_Ufloat(t *testing.T)    { vpC08ValTest(t, vpC08TgUfloat) }
