package fasthttp

// C26 — request paths are fully normalised.
//
// Oracle: an independent reference written from the property text and from the pseudo-code of
// RFC 3986 §5.2.4 (remove_dot_segments):
//   prepend "/" if the path does not start with one -> decode valid %XX (invalid escapes stay
//   literal) -> collapse runs of "/" -> remove_dot_segments.
// URI.Path() / RequestCtx.Path() must equal it. The reference shares no code with fasthttp.
//
// Entry points exercised for every generated raw path: URI.SetPath / SetPathBytes, URI.Parse with a
// host (origin-form), URI.Parse of an absolute URI, URI.Update (absolute-path and relative-path
// forms, chained on the previous state) and a request served through Server.ServeConn.

import (
	"bytes"
	"fmt"
	"io"
	"net"
	"strings"
	"sync"
	"testing"
	"time"

	"pgregory.net/rapid"
)

// ---------------------------------------------------------------------------------------------
// reference

func vpC26IsHex(c byte) bool {
	return (c >= '0' && c <= '9') || (c >= 'a' && c <= 'f') || (c >= 'A' && c <= 'F')
}

func vpC26HexVal(c byte) byte {
	switch {
	case c >= '0' && c <= '9':
		return c - '0'
	case c >= 'a' && c <= 'f':
		return c - 'a' + 10
	default:
		return c - 'A' + 10
	}
}

// vpC26Decode percent-decodes in one left-to-right pass; a '%' not followed by two hex digits is
// kept literally.
func vpC26Decode(s string) string {
	var sb strings.Builder
	for i := 0; i < len(s); {
		if s[i] == '%' && i+2 < len(s) && vpC26IsHex(s[i+1]) && vpC26IsHex(s[i+2]) {
			sb.WriteByte(vpC26HexVal(s[i+1])<<4 | vpC26HexVal(s[i+2]))
			i += 3
			continue
		}
		sb.WriteByte(s[i])
		i++
	}
	return sb.String()
}

func vpC26Collapse(s string) string {
	var sb strings.Builder
	prevSlash := false
	for i := 0; i < len(s); i++ {
		if s[i] == '/' {
			if prevSlash {
				continue
			}
			prevSlash = true
		} else {
			prevSlash = false
		}
		sb.WriteByte(s[i])
	}
	return sb.String()
}

// vpC26RemoveDotSegments is a transcription of the RFC 3986 §5.2.4 pseudo-code (steps 2A-2E).
// aboveRoot reports whether a ".." segment was met while the output buffer was empty.
func vpC26RemoveDotSegments(in string) (out string, aboveRoot bool) {
	removeLast := func() {
		if out == "" {
			aboveRoot = true
		}
		i := strings.LastIndexByte(out, '/')
		if i < 0 {
			out = ""
		} else {
			out = out[:i]
		}
	}
	for len(in) > 0 {
		switch {
		// A
		case strings.HasPrefix(in, "../"):
			in = in[3:]
		case strings.HasPrefix(in, "./"):
			in = in[2:]
		// B
		case strings.HasPrefix(in, "/./"):
			in = in[2:]
		case in == "/.":
			in = "/"
		// C
		case strings.HasPrefix(in, "/../"):
			in = in[3:]
			removeLast()
		case in == "/..":
			in = "/"
			removeLast()
		// D
		case in == "." || in == "..":
			in = ""
		// E
		default:
			start := 0
			if in[0] == '/' {
				start = 1
			}
			j := strings.IndexByte(in[start:], '/')
			if j < 0 {
				out += in
				in = ""
			} else {
				out += in[:start+j]
				in = in[start+j:]
			}
		}
	}
	return out, aboveRoot
}

// vpC26Prep = leading slash + decode + collapse (everything before dot-segment removal).
func vpC26Prep(raw string) string {
	if len(raw) == 0 || raw[0] != '/' {
		raw = "/" + raw
	}
	return vpC26Collapse(vpC26Decode(raw))
}

func vpC26Ref(raw string) string {
	out, _ := vpC26RemoveDotSegments(vpC26Prep(raw))
	return out
}

// vpC26PathPart cuts a request-URI at the first '?' or '#'.
func vpC26PathPart(s string) string {
	if i := strings.IndexAny(s, "?#"); i >= 0 {
		return s[:i]
	}
	return s
}

func vpC26HasCTL(s string) bool {
	for i := 0; i < len(s); i++ {
		if s[i] < ' ' || s[i] == 0x7f {
			return true
		}
	}
	return false
}

// vpC26Feature classifies a raw path (for the class histogram) and says whether it is non-trivial
// by the property's rule: it contains a dot segment (literal or encoded) or an encoded slash.
func vpC26Feature(raw string) (string, bool) {
	prep := vpC26Prep(raw)
	_, above := vpC26RemoveDotSegments(prep)
	low := strings.ToLower(raw)
	encSlash := strings.Contains(low, "%2f")
	encDot := strings.Contains(low, "%2e")
	hasDot, hasDotDot := false, false
	segs := strings.Split(prep, "/")
	for _, s := range segs {
		if s == "." {
			hasDot = true
		}
		if s == ".." {
			hasDotDot = true
		}
	}
	last := segs[len(segs)-1]
	switch {
	case above:
		return "dotdot-above-root", true
	case last == "..":
		return "trailing-dotdot", true
	case last == ".":
		return "trailing-dot", true
	case hasDotDot && encDot:
		return "dotdot-encoded", true
	case hasDotDot:
		return "dotdot", true
	case hasDot && encDot:
		return "dot-encoded", true
	case hasDot:
		return "dot", true
	case encSlash:
		return "encoded-slash", true
	case strings.Contains(raw, "//"):
		return "slash-run", false
	case strings.Contains(raw, "%"):
		return "escapes", false
	default:
		return "plain", false
	}
}

// ---------------------------------------------------------------------------------------------
// known findings

const vpC26KeyTrailingDot = "C26/trailing-dot-segment"
const vpC26KeyNetPath = "C26/origin-form-double-slash-with-scheme-delimiter"

// vpC26InTrailingDot: the path (after leading slash + decoding) ends in a "." segment.
func vpC26InTrailingDot(rawPath string) bool {
	return strings.HasSuffix(vpC26Prep(rawPath), "/.")
}

// vpC26InNetPath: a request-URI given together with a host that starts with "//" and contains "://".
func vpC26InNetPath(raw string) bool {
	return strings.HasPrefix(raw, "//") && strings.Contains(raw, "://")
}

var vpC26ProbeOnce sync.Once

func vpC26Probe() {
	vpC26ProbeOnce.Do(func() {
		var bad []string
		for _, raw := range []string{"/a/.", "/a/%2e", "/.", ".", "/a/./.", "/a/../.", "/a/b/%2E"} {
			var u URI
			u.SetPath(raw)
			got := string(u.Path())
			if err := u.Parse([]byte("example.com"), []byte(raw)); err != nil {
				bad = append(bad, fmt.Sprintf("Parse(%q): %v", raw, err))
				continue
			}
			got2 := string(u.Path())
			if want := vpC26Ref(raw); got != want || got2 != want {
				bad = append(bad, fmt.Sprintf("%q -> SetPath %q / Parse %q, want %q", raw, got, got2, want))
			}
		}
		vpProbe(vpC26KeyTrailingDot, len(bad) > 0, strings.Join(bad, "; "))

		bad = nil
		for _, raw := range []string{"//a://b", "//x/y?u=http://z", "//a/b/../c#://"} {
			var u URI
			if err := u.Parse([]byte("example.com"), []byte(raw)); err != nil {
				bad = append(bad, fmt.Sprintf("Parse(example.com, %q): %v", raw, err))
				continue
			}
			if want := vpC26Ref(vpC26PathPart(raw)); string(u.Path()) != want || string(u.Host()) != "example.com" {
				bad = append(bad, fmt.Sprintf("Parse(example.com, %q) -> host %q path %q, want host example.com path %q", raw, u.Host(), u.Path(), want))
			}
		}
		vpProbe(vpC26KeyNetPath, len(bad) > 0, strings.Join(bad, "; "))
	})
}

// ---------------------------------------------------------------------------------------------
// generators

var vpC26Segs = []string{
	".", "..", ".", "..", "%2e", "%2E", "%2e%2e", "%2E%2E", ".%2e", "%2e.", "%2E%2e",
	"...", "....", "a", "b", "ab", "c", ".a", "a.", "..a", "a..", ".a.", "", "",
	"a", "b", "c", "d", "e", "a", "b", "c", "d", "e", "a", "b", "c", "d", "e", "index.html", "a", "b", "c", "d",
	"%2f", "%2F", "%25", "%252e", "%252f", "%", "%zz", "%2", "%2e%2f", "..%2f", "%2f..", "%2f%2e%2e", "%2f%2e",
	"%5c", "\\", "..\\", "\\..", "%00", "%2e%00", ":", ";", "a;b", "..;", "*", "+", "%20", "~", "a:b",
	"\xc0\xae", "%c0%ae", "\x80", "\xff", "\xc3\xa9", "%e9", "%%32e", "%2%65", "%%2e", "%2e%", ".%", "%.",
}

var vpC26Seps = []string{"/", "/", "/", "/", "/", "/", "/", "/", "//", "%2f", "%2F", "/%2f", "%2f/", "///", "/./", "/../", "/%2e/", "/%2e%2e/"}

var vpC26Suffixes = []string{"?", "?a=b", "?/../x", "?/.", "#", "#/..", "#/.", "?x#y", "#x?y", "?a=%2f..&b=/./", "?u=http://z/.."}

var vpC26Tokens = []string{
	"/", "/", "/", ".", ".", "..", "%2e", "%2E", "%2f", "%2F", "%25", "%", "%zz", "?", "#",
	"a", "b", "x", ":", "\\", "%5c", "%00", "\x80", "%", "2", "e", "f", "5", "E", "F", ";", "=", "&", "+", "~", "%c3", "@", "://",
}

var vpC26Bytes = []byte{'/', '/', '/', '.', '.', '.', '%', '%', '2', 'e', 'E', 'f', 'F', '5', '?', '#', 'a', ':', '\\', 0x80, 0xff, ' ', 0x00, '\n', 0x7f, '+', ';'}

func vpC26GenRaw() *rapid.Generator[string] {
	return rapid.Custom(func(t *rapid.T) string {
		var sb strings.Builder
		switch rapid.IntRange(0, 10).Draw(t, "shape") {
		case 0, 1, 2, 3, 4, 5: // segment list
			if rapid.IntRange(0, 4).Draw(t, "lead") > 0 {
				sb.WriteString(rapid.SampledFrom(vpC26Seps).Draw(t, "leadsep"))
			}
			n := rapid.IntRange(0, 8).Draw(t, "nseg")
			mostlyPlain := rapid.Bool().Draw(t, "mostlyPlain")
			for i := 0; i < n; i++ {
				if i > 0 {
					if mostlyPlain {
						sb.WriteString(rapid.SampledFrom([]string{"/", "/", "/", "//", "%2f"}).Draw(t, "psep"))
					} else {
						sb.WriteString(rapid.SampledFrom(vpC26Seps).Draw(t, "sep"))
					}
				}
				if mostlyPlain && rapid.IntRange(0, 3).Draw(t, "plainseg") > 0 {
					sb.WriteString(rapid.SampledFrom([]string{"a", "b", "c", "dir", "x.y", "index.html", "%61", "a%20b"}).Draw(t, "pseg"))
				} else {
					sb.WriteString(rapid.SampledFrom(vpC26Segs).Draw(t, "seg"))
				}
			}
			if rapid.IntRange(0, 2).Draw(t, "trail") == 0 {
				sb.WriteString(rapid.SampledFrom(vpC26Seps).Draw(t, "trailsep"))
			}
			if rapid.IntRange(0, 5).Draw(t, "suffix") == 0 {
				sb.WriteString(rapid.SampledFrom(vpC26Suffixes).Draw(t, "suf"))
			}
		case 6: // climb above the root, then descend
			k := rapid.IntRange(1, 6).Draw(t, "ups")
			for i := 0; i < k; i++ {
				sb.WriteString(rapid.SampledFrom([]string{"/..", "/%2e%2e", "/.%2E", "//..", "%2f..", "/a/../.."}).Draw(t, "up"))
			}
			n := rapid.IntRange(0, 4).Draw(t, "nseg")
			for i := 0; i < n; i++ {
				sb.WriteString(rapid.SampledFrom(vpC26Seps).Draw(t, "sep"))
				sb.WriteString(rapid.SampledFrom(vpC26Segs).Draw(t, "seg"))
			}
		case 7: // token soup
			n := rapid.IntRange(0, 24).Draw(t, "ntok")
			for i := 0; i < n; i++ {
				sb.WriteString(rapid.SampledFrom(vpC26Tokens).Draw(t, "tok"))
			}
		case 8, 9: // byte soup over a small alphabet (splits escapes in every possible way)
			b := rapid.SliceOfN(rapid.SampledFrom(vpC26Bytes), 0, 40).Draw(t, "bytes")
			sb.Write(b)
		default: // arbitrary bytes
			b := rapid.SliceOfN(rapid.Byte(), 0, 30).Draw(t, "anybytes")
			sb.Write(b)
		}
		s := sb.String()
		if len(s) > 60 {
			s = s[:60]
		}
		return s
	})
}

// vpC26Steer moves a raw path out of the class of the open known finding (path ending in a "."
// segment) by appending one more byte, so that the search continues behind the finding.
func vpC26Steer(t *rapid.T, raw string) string {
	if vpKnownOpen(vpC26KeyTrailingDot) && vpC26InTrailingDot(raw) {
		vpExclude(vpC26KeyTrailingDot)
		raw += rapid.SampledFrom([]string{"/", "a", ".", "/..", "%2f"}).Draw(t, "steer")
	}
	return raw
}

// ---------------------------------------------------------------------------------------------
// in-memory connection for Server.ServeConn

type vpC26Conn struct {
	r io.Reader
	w bytes.Buffer
}

func (c *vpC26Conn) Read(p []byte) (int, error)  { return c.r.Read(p) }
func (c *vpC26Conn) Write(p []byte) (int, error) { return c.w.Write(p) }
func (c *vpC26Conn) Close() error                { return nil }
func (c *vpC26Conn) LocalAddr() net.Addr         { return &net.TCPAddr{IP: net.IPv4(127, 0, 0, 1), Port: 80} }
func (c *vpC26Conn) RemoteAddr() net.Addr {
	return &net.TCPAddr{IP: net.IPv4(127, 0, 0, 1), Port: 4321}
}
func (c *vpC26Conn) SetDeadline(time.Time) error      { return nil }
func (c *vpC26Conn) SetReadDeadline(time.Time) error  { return nil }
func (c *vpC26Conn) SetWriteDeadline(time.Time) error { return nil }

type vpC26NopLogger struct{}

func (vpC26NopLogger) Printf(string, ...any) {}

type vpC26Served struct {
	path, pathOriginal, reqURI, host string
}

type vpC26Srv struct {
	s    *Server
	seen []vpC26Served
}

func vpC26NewSrv() *vpC26Srv {
	v := &vpC26Srv{}
	v.s = &Server{
		Logger: vpC26NopLogger{},
		Handler: func(ctx *RequestCtx) {
			v.seen = append(v.seen, vpC26Served{
				path:         string(ctx.Path()),
				pathOriginal: string(ctx.URI().PathOriginal()),
				reqURI:       string(ctx.RequestURI()),
				host:         string(ctx.URI().Host()),
			})
		},
	}
	return v
}

// serve sends the targets as pipelined GET requests over one connection and returns what the
// handler saw for each dispatched request.
func (v *vpC26Srv) serve(targets []string) []vpC26Served {
	v.seen = v.seen[:0]
	var wire bytes.Buffer
	for _, tg := range targets {
		wire.WriteString("GET " + tg + " HTTP/1.1\r\nHost: example.com\r\n\r\n")
	}
	c := &vpC26Conn{r: bytes.NewReader(wire.Bytes())}
	_ = v.s.ServeConn(c)
	return append([]vpC26Served(nil), v.seen...)
}

// ---------------------------------------------------------------------------------------------
// the checks for one raw path

type vpC26Fataler interface {
	Fatalf(format string, args ...any)
}

func vpC26CheckNormalForm(t vpC26Fataler, where, raw, got string) {
	if !strings.HasPrefix(got, "/") {
		t.Fatalf("%s(%q): Path() = %q does not start with '/'", where, raw, got)
	}
	if strings.Contains(got, "//") {
		t.Fatalf("%s(%q): Path() = %q has an empty segment", where, raw, got)
	}
	for _, s := range strings.Split(got, "/") {
		if s == "." || s == ".." {
			t.Fatalf("%s(%q): Path() = %q still has a dot segment %q", where, raw, got, s)
		}
	}
}

func vpC26Record(entry, raw string) {
	f, nt := vpC26Feature(raw)
	vpCase(entry+"/"+f, nt, entry+"|"+raw, func() string { return fmt.Sprintf("%q -> %q", raw, vpC26Ref(raw)) })
}

// vpC26CheckSetPath: SetPath/SetPathBytes take the whole string as the path.
func vpC26CheckSetPath(t vpC26Fataler, u *URI, raw string, bytesVariant bool) {
	if vpKnownOpen(vpC26KeyTrailingDot) && vpC26InTrailingDot(raw) {
		vpExclude(vpC26KeyTrailingDot)
		return
	}
	where := "SetPath"
	if bytesVariant {
		where = "SetPathBytes"
		u.SetPathBytes([]byte(raw))
	} else {
		u.SetPath(raw)
	}
	vpC26Record("setpath", raw)
	got, want := string(u.Path()), vpC26Ref(raw)
	if got != want {
		t.Fatalf("%s(%q): Path() = %q, reference (leading slash, decode, collapse slashes, RFC 3986 remove_dot_segments) = %q", where, raw, got, want)
	}
	vpC26CheckNormalForm(t, where, raw, got)
	if string(u.PathOriginal()) != raw {
		t.Fatalf("%s(%q): PathOriginal() = %q", where, raw, u.PathOriginal())
	}
}

// vpC26CheckParseHost: origin-form request-URI parsed against a Host.
func vpC26CheckParseHost(t vpC26Fataler, u *URI, raw string) {
	pp := vpC26PathPart(raw)
	if vpKnownOpen(vpC26KeyTrailingDot) && vpC26InTrailingDot(pp) {
		vpExclude(vpC26KeyTrailingDot)
		return
	}
	if vpC26InNetPath(raw) {
		if vpKnownOpen(vpC26KeyNetPath) {
			vpExclude(vpC26KeyNetPath)
			return
		}
	} else if strings.Contains(raw, "://") && !strings.HasPrefix(raw, "/") {
		// absolute-form (scheme://...) or something that looks like it: where its path starts is
		// not the subject of this property; the absolute form is exercised by vpC26CheckParseAbs.
		vpCase("parse-host/skipped-looks-absolute", false, "", nil)
		return
	}
	err := u.Parse([]byte("example.com"), []byte(raw))
	if vpC26HasCTL(raw) {
		vpCase("parse-host/ctl", false, "", nil)
		if err == nil {
			// accepted anyway: then the path must still be the normalised one
			if got, want := string(u.Path()), vpC26Ref(pp); got != want {
				t.Fatalf("Parse(example.com, %q): Path() = %q, reference = %q", raw, got, want)
			}
		}
		return
	}
	if err != nil {
		t.Fatalf("Parse(example.com, %q): unexpected error %v for a request-URI without control bytes", raw, err)
	}
	vpC26Record("parse-host", pp)
	got, want := string(u.Path()), vpC26Ref(pp)
	if got != want {
		t.Fatalf("Parse(example.com, %q): Path() = %q (host %q), reference for path %q = %q", raw, got, u.Host(), pp, want)
	}
	vpC26CheckNormalForm(t, "Parse", raw, got)
}

// vpC26CheckParseAbs: absolute URI; the path starts at the first '/' after the authority.
func vpC26CheckParseAbs(t vpC26Fataler, u *URI, raw string, scheme string) {
	if len(raw) == 0 || raw[0] != '/' {
		raw = "/" + raw
	}
	pp := vpC26PathPart(raw)
	if vpKnownOpen(vpC26KeyTrailingDot) && vpC26InTrailingDot(pp) {
		vpExclude(vpC26KeyTrailingDot)
		return
	}
	full := scheme + "://example.com" + raw
	err := u.Parse(nil, []byte(full))
	if vpC26HasCTL(raw) {
		vpCase("parse-abs/ctl", false, "", nil)
		if err == nil {
			if got, want := string(u.Path()), vpC26Ref(pp); got != want {
				t.Fatalf("Parse(nil, %q): Path() = %q, reference = %q", full, got, want)
			}
		}
		return
	}
	if err != nil {
		t.Fatalf("Parse(nil, %q): unexpected error %v", full, err)
	}
	vpC26Record("parse-abs", pp)
	got, want := string(u.Path()), vpC26Ref(pp)
	if got != want {
		t.Fatalf("Parse(nil, %q): Path() = %q, reference for path %q = %q", full, got, pp, want)
	}
	if string(u.Host()) != "example.com" {
		t.Fatalf("Parse(nil, %q): Host() = %q", full, u.Host())
	}
	vpC26CheckNormalForm(t, "Parse", full, got)
}

// vpC26CheckUpdate applies Update(raw) to u (whatever state it is in, provided it has a host) and
// checks the resulting path: "/..." replaces the path; "?..."/"#..." leave it alone; anything else
// is merged with the current path up to and including its last slash (RFC 3986 §5.2.3 merge)
// before normalisation.
func vpC26CheckUpdate(t vpC26Fataler, u *URI, raw string) {
	if raw == "" || vpC26HasCTL(raw) || strings.HasPrefix(raw, "//") || strings.Contains(raw, "://") {
		// empty: no-op; CTL: rejected (URI is reset); "//" and "scheme://": documented as carrying
		// an authority, covered by the Parse entry points.
		vpCase("update/skipped", false, "", nil)
		return
	}
	before := string(u.Path())
	var entry, eff string
	switch raw[0] {
	case '/':
		entry, eff = "update-abs", vpC26PathPart(raw)
	case '?', '#':
		entry, eff = "update-query-or-hash", ""
	default:
		entry = "update-rel"
		eff = before[:strings.LastIndexByte(before, '/')+1] + vpC26Decode(vpC26PathPart(raw))
		// eff is already decoded: protect literal '%' so that the reference's decode step is the identity on it
		eff = strings.ReplaceAll(eff, "%", "%25")
	}
	if entry != "update-query-or-hash" && vpKnownOpen(vpC26KeyTrailingDot) && vpC26InTrailingDot(eff) {
		vpExclude(vpC26KeyTrailingDot)
		return
	}
	u.Update(raw)
	got := string(u.Path())
	if entry == "update-query-or-hash" {
		vpCase(entry, false, "", nil)
		if got != before {
			t.Fatalf("Update(%q) changed the path from %q to %q", raw, before, got)
		}
		return
	}
	vpC26Record(entry, eff)
	want := vpC26Ref(eff)
	if got != want {
		t.Fatalf("Update(%q) on a URI with path %q: Path() = %q, reference = %q", raw, before, got, want)
	}
	vpC26CheckNormalForm(t, "Update", raw, got)
	if string(u.Host()) != "example.com" {
		t.Fatalf("Update(%q): host became %q", raw, u.Host())
	}
}

// vpC26ServeTarget turns a raw path into an origin-form request-target, or "" when it cannot be
// put on a request line (SP or control bytes) or falls in an open known-finding class.
func vpC26ServeTarget(raw string) string {
	if len(raw) == 0 || raw[0] != '/' {
		raw = "/" + raw
	}
	if vpC26HasCTL(raw) || strings.IndexByte(raw, ' ') >= 0 {
		return ""
	}
	if vpKnownOpen(vpC26KeyTrailingDot) && vpC26InTrailingDot(vpC26PathPart(raw)) {
		vpExclude(vpC26KeyTrailingDot)
		return ""
	}
	if vpC26InNetPath(raw) && vpKnownOpen(vpC26KeyNetPath) {
		vpExclude(vpC26KeyNetPath)
		return ""
	}
	return raw
}

type vpC26Target struct {
	wire string // request-target as sent
	pp   string // its path component (up to '?' / '#')
}

// vpC26MakeTarget: origin-form target, or the same in absolute-form (http://example.com + target).
func vpC26MakeTarget(origin string, absForm bool) vpC26Target {
	tg := vpC26Target{wire: origin, pp: vpC26PathPart(origin)}
	if absForm {
		tg.wire = "http://example.com" + origin
	}
	return tg
}

func vpC26CheckServed(t vpC26Fataler, srv *vpC26Srv, targets []vpC26Target) {
	if len(targets) == 0 {
		return
	}
	wires := make([]string, len(targets))
	for i, tg := range targets {
		wires[i] = tg.wire
	}
	seen := srv.serve(wires)
	if len(seen) > len(targets) {
		t.Fatalf("handler ran %d times for %d requests %q", len(seen), len(targets), wires)
	}
	for i, sv := range seen {
		tg := targets[i]
		if sv.reqURI != tg.wire {
			t.Fatalf("request %d of %q: handler saw RequestURI %q", i, wires, sv.reqURI)
		}
		entry := "served"
		if tg.wire != tg.pp && strings.HasPrefix(tg.wire, "http://") {
			entry = "served-absform"
		}
		vpC26Record(entry, tg.pp)
		want := vpC26Ref(tg.pp)
		if sv.path != want {
			t.Fatalf("served request-target %q: ctx.Path() = %q (URI host %q), reference for path %q = %q", tg.wire, sv.path, sv.host, tg.pp, want)
		}
		vpC26CheckNormalForm(t, "ctx.Path", tg.wire, sv.path)
	}
	if len(seen) < len(targets) {
		// the server refused a request (allowed: the property is about accepted requests)
		vpCase("served/refused", false, "", func() string { return fmt.Sprintf("%q", wires[len(seen)]) })
	}
}

// ---------------------------------------------------------------------------------------------
// tests

// The reference itself against the worked examples of RFC 3986 (§5.2.4 and §5.4) and the examples
// in fasthttp's documentation. Guards the oracle, not fasthttp.
func TestVP_C26_ReferenceSelfCheck(t *testing.T) {
	for _, c := range [][2]string{
		{"/a/b/c/./../../g", "/a/g"},
		{"mid/content=5/../6", "/mid/6"},
		{"/a/b/..", "/a/"},
		{"/a/b/../", "/a/"},
		{"/a/b/.", "/a/b/"},
		{"/a/b/./", "/a/b/"},
		{"/..", "/"},
		{"/../..", "/"},
		{"/../a", "/a"},
		{"/.", "/"},
		{"", "/"},
		{".", "/"},
		{"..", "/"},
		{"/...", "/..."},
		{"/a/.../b", "/a/.../b"},
		{"//f%20obar/baz/../zzz", "/f obar/zzz"},
		{"/b/c/d;p", "/b/c/d;p"},
		{"/%2e%2E/%2fa//%2F/b/%2e", "/a/b/"},
		{"/a%2f..%2fb", "/b"},
		{"/%zz/%2/%", "/%zz/%2/%"},
		{"/%252e/", "/%2e/"},
		{"/a/..b/.c/d../e./", "/a/..b/.c/d../e./"},
	} {
		if got := vpC26Ref(c[0]); got != c[1] {
			t.Fatalf("reference(%q) = %q, want %q", c[0], got, c[1])
		}
	}
	vpCase("selfcheck", false, "", nil)
}

func TestVP_C26_Paths(t *testing.T) {
	vpC26Probe()
	srv := vpC26NewSrv()
	rapid.Check(t, func(t *rapid.T) {
		n := rapid.IntRange(1, 3).Draw(t, "n")
		raws := make([]string, n)
		for i := range raws {
			raws[i] = vpC26Steer(t, vpC26GenRaw().Draw(t, "raw"))
		}
		scheme := rapid.SampledFrom([]string{"http", "https", "HTTP", "ftp"}).Draw(t, "scheme")
		u := AcquireURI()
		defer ReleaseURI(u)
		var targets []vpC26Target
		for i, raw := range raws {
			vpC26CheckSetPath(t, u, raw, i%2 == 1)
			vpC26CheckParseHost(t, u, raw)
			vpC26CheckParseAbs(t, u, raw, scheme)
			if tg := vpC26ServeTarget(raw); tg != "" {
				targets = append(targets, vpC26MakeTarget(tg, rapid.IntRange(0, 3).Draw(t, "absform") == 0))
			}
		}
		// chained updates on the URI left behind by the last absolute parse
		if len(u.Host()) == 0 {
			if err := u.Parse(nil, []byte("http://example.com/base/dir/file?x=1#h")); err != nil {
				t.Fatalf("base parse: %v", err)
			}
		}
		nu := rapid.IntRange(1, 4).Draw(t, "nupd")
		for i := 0; i < nu; i++ {
			raw := vpC26GenRaw().Draw(t, "upd")
			// Update documents a leading "//" and "scheme://" as introducing an authority: keep the
			// case in the path-only domain instead of losing it
			if strings.HasPrefix(raw, "//") {
				raw = "/" + strings.TrimLeft(raw, "/")
			}
			raw = strings.ReplaceAll(raw, "://", ":/")
			vpC26CheckUpdate(t, u, raw)
			if string(u.Host()) != "example.com" {
				// a skipped/failed update cannot have changed it, but be safe for the next step
				if err := u.Parse(nil, []byte("http://example.com/base/dir/file?x=1#h")); err != nil {
					t.Fatalf("base parse: %v", err)
				}
			}
		}
		vpC26CheckServed(t, srv, targets)
	})
}

// Native fuzz target (thorough tier): the same per-path checks on coverage-guided byte strings.
func FuzzVP_C26_Path(f *testing.F) {
	for _, s := range []string{
		"/", "", ".", "..", "/.", "/..", "/a/.", "/a/..", "/a/./.", "/a/%2e", "/a/%2E%2e", "/a/b/../../..", "/a/b/../../../c",
		"//f%20obar/baz/../zzz", "/%2f%2e%2e%2f", "/a%2f..%2f..%2fetc/passwd", "/%252e%252e/", "/..%5c..%5c", "/a/..;/b",
		"/%zz/%2/%", "/a?/../b", "/a#/../b", "a//b", "//a://b", "/x://y/../z", "/%c0%ae%c0%ae/", "/a/.../b", "/a/..b/.c",
		"http://foobar.com/aaa/bb?cc#dd", "//foobar.com/aaa/bb?cc", "/aaa/bb?cc", "xx?yy=abc",
		"/a/./b/../c/.//d/%2e%2e/%2e/e", "/\x80\xff/./%80", "/%00/../%00",
	} {
		f.Add([]byte(s))
	}
	var srv *vpC26Srv
	f.Fuzz(func(t *testing.T, data []byte) {
		if len(data) > 300 {
			return
		}
		vpC26Probe()
		if srv == nil {
			srv = vpC26NewSrv()
		}
		raw := string(data)
		u := AcquireURI()
		defer ReleaseURI(u)
		vpC26CheckSetPath(t, u, raw, len(raw)%2 == 1)
		vpC26CheckParseHost(t, u, raw)
		vpC26CheckParseAbs(t, u, raw, "http")
		if err := u.Parse(nil, []byte("http://example.com/base/%2e%25/dir/file?x=1#h")); err != nil {
			t.Fatalf("base parse: %v", err)
		}
		vpC26CheckUpdate(t, u, raw)
		if tg := vpC26ServeTarget(raw); tg != "" {
			vpC26CheckServed(t, srv, []vpC26Target{vpC26MakeTarget(tg, false), vpC26MakeTarget(tg, true)})
		}
	})
}
