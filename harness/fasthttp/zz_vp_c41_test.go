package fasthttp

// C41 — TCPDialer bounds concurrent dials and honours its timeout.
//
// Real loopback sockets only. Per test process one "universe" is built on 127.0.41.x:
//   listening endpoints : net.Listen, an accept loop greets every connection with its own address
//   refused endpoints   : a TCP socket that is bound but never listens (connect gets RST); holding the
//                         socket keeps the port away from everybody else
//   hanging endpoints   : raw listen(fd, backlog 0) that is never accepted and whose accept queue has
//                         been filled, so every later SYN is dropped and connect stays in SYN_SENT
// Every endpoint kind exists on the same two ports (a host name resolves to IPs, the port comes from
// the dialled address). A fake Resolver maps generated host names to generated endpoint lists.
// Dials in progress are observed from outside the dialer: rows of /proc/net/tcp in state 02 (SYN_SENT)
// whose remote address is one of this process's hanging endpoints.
//
//   TestVP_C41_NoHang   listening/refused endpoints only, 5 s timeout (never the limiting factor):
//                       every address is tried before failing, rotation, results are real connections
//   TestVP_C41_Hang     hanging endpoints, Concurrency 1-4, timeouts 100-300 ms, 1-24 concurrent dials:
//                       SYN_SENT rows <= Concurrency, ErrDialTimeout + upstream, elapsed <= timeout + slack

import (
	"bufio"
	"context"
	"errors"
	"fmt"
	"net"
	"os"
	"sort"
	"strings"
	"sync"
	"sync/atomic"
	"syscall"
	"testing"
	"time"

	"pgregory.net/rapid"
)

const (
	vpC41Slack           = 600 * time.Millisecond // scheduling slack over the requested timeout
	vpC41LongTimeout     = 5 * time.Second        // NoHang scenarios: nothing waits, so this never elapses
	vpC41SampleEvery     = 8 * time.Millisecond
	vpC41StallGap        = 200 * time.Millisecond // a 10 ms sleeper that overslept this much = the process was stalled
	vpC41PrefillProbe    = 300 * time.Millisecond
	vpC41OccupantTimeout = 1200 * time.Millisecond // only for slot occupants in the "longOccupants" scenarios
	vpC41KeyIOTimeout    = "C41/poller-timeout-not-errdialtimeout"
)

// vpC41IsPollerTimeout recognises the signature of the known finding: the dial did time out, but the
// error is the net poller's "i/o timeout" (a net.Error with Timeout() == true) wrapped with the
// upstream address instead of ErrDialTimeout.
func vpC41IsPollerTimeout(err error) bool {
	if err == nil || errors.Is(err, ErrDialTimeout) {
		return false
	}
	var up *ErrDialWithUpstream
	var ne net.Error
	return errors.As(err, &up) && errors.As(err, &ne) && ne.Timeout()
}

var vpC41ProbeOnce sync.Once

// vpC41ProbeIOTimeout: 40 concurrent dials to a single-address host that hangs, 100 ms timeout,
// unlimited concurrency. Every one of them must fail with ErrDialTimeout.
func vpC41ProbeIOTimeout(u *vpC41Universe) {
	vpC41ProbeOnce.Do(func() {
		res := &vpC41Resolver{hosts: map[string][]net.IPAddr{"probe.vp41.test": {{IP: net.ParseIP(u.hangIP[0])}}}, calls: map[string]int{}}
		d := &TCPDialer{Resolver: res}
		defer d.FlushDNSCache()
		var wg sync.WaitGroup
		var mu sync.Mutex
		mis, other := 0, 0
		var sample error
		for i := 0; i < 40; i++ {
			wg.Add(1)
			go func() {
				defer wg.Done()
				c, err := d.DialTimeout(fmt.Sprintf("probe.vp41.test:%d", u.ports[0]), 100*time.Millisecond)
				if c != nil {
					c.Close()
				}
				mu.Lock()
				defer mu.Unlock()
				switch {
				case errors.Is(err, ErrDialTimeout):
				case vpC41IsPollerTimeout(err):
					mis++
					sample = err
				default:
					other++
					sample = err
				}
			}()
		}
		wg.Wait()
		vpProbe(vpC41KeyIOTimeout, mis > 0, fmt.Sprintf("40 concurrent DialTimeout(100ms) to a host whose only address hangs: %d returned an i/o timeout that is not ErrDialTimeout, %d something else; e.g. %v", mis, other, sample))
	})
}

type vpC41Universe struct {
	ports    []int
	listenIP []string
	refuseIP []string
	hangIP   []string
	hangKeys map[string]bool // "1529007F:1F90" = rem_address column of /proc/net/tcp
	keep     []net.Conn      // connections that fill the hanging endpoints' accept queues
	fds      []int
	lns      []net.Listener
	err      error
}

var (
	vpC41Uni     *vpC41Universe
	vpC41UniOnce sync.Once
)

func vpC41ProcKey(ip string, port int) string {
	p := net.ParseIP(ip).To4()
	return fmt.Sprintf("%02X%02X%02X%02X:%04X", p[3], p[2], p[1], p[0], port)
}

func vpC41RawSocket(ip string, port int, listen bool) (int, error) {
	fd, err := syscall.Socket(syscall.AF_INET, syscall.SOCK_STREAM|syscall.SOCK_CLOEXEC, 0)
	if err != nil {
		return -1, err
	}
	var sa syscall.SockaddrInet4
	copy(sa.Addr[:], net.ParseIP(ip).To4())
	sa.Port = port
	if err := syscall.Bind(fd, &sa); err != nil {
		syscall.Close(fd)
		return -1, err
	}
	if listen {
		if err := syscall.Listen(fd, 0); err != nil {
			syscall.Close(fd)
			return -1, err
		}
	}
	return fd, nil
}

func vpC41Greet(ln net.Listener) {
	for {
		c, err := ln.Accept()
		if err != nil {
			return
		}
		go func(c net.Conn) {
			c.SetWriteDeadline(time.Now().Add(5 * time.Second)) //nolint:errcheck
			fmt.Fprintf(c, "VP41 %s\n", ln.Addr().String())
			c.Close()
		}(c)
	}
}

func (u *vpC41Universe) close() {
	for _, ln := range u.lns {
		ln.Close()
	}
	for _, fd := range u.fds {
		syscall.Close(fd)
	}
	for _, c := range u.keep {
		c.Close()
	}
	u.lns, u.fds, u.keep = nil, nil, nil
}

// tryPort builds all endpoints on one port; false if the port is taken on any of the addresses.
func (u *vpC41Universe) tryPort() (int, bool) {
	first, err := net.Listen("tcp4", u.listenIP[0]+":0")
	if err != nil {
		return 0, false
	}
	port := first.Addr().(*net.TCPAddr).Port
	lns := []net.Listener{first}
	var fds []int
	fail := func() (int, bool) {
		for _, ln := range lns {
			ln.Close()
		}
		for _, fd := range fds {
			syscall.Close(fd)
		}
		return 0, false
	}
	for _, ip := range u.listenIP[1:] {
		ln, err := net.Listen("tcp4", fmt.Sprintf("%s:%d", ip, port))
		if err != nil {
			return fail()
		}
		lns = append(lns, ln)
	}
	for _, ip := range u.refuseIP {
		fd, err := vpC41RawSocket(ip, port, false)
		if err != nil {
			return fail()
		}
		fds = append(fds, fd)
	}
	for _, ip := range u.hangIP {
		fd, err := vpC41RawSocket(ip, port, true)
		if err != nil {
			return fail()
		}
		fds = append(fds, fd)
	}
	u.lns = append(u.lns, lns...)
	u.fds = append(u.fds, fds...)
	for _, ln := range lns {
		go vpC41Greet(ln)
	}
	return port, true
}

// vpC41SynSent lists this process's dials in progress towards hanging endpoints: one identity
// (local address + inode) per /proc/net/tcp row in state SYN_SENT whose remote address is a hanging endpoint.
func vpC41SynSent(keys map[string]bool) (map[string]bool, error) {
	b, err := os.ReadFile("/proc/net/tcp")
	if err != nil {
		return nil, err
	}
	out := map[string]bool{}
	for _, line := range strings.Split(string(b), "\n") {
		f := strings.Fields(line)
		if len(f) < 10 || f[3] != "02" {
			continue
		}
		if keys[f[2]] {
			out[f[1]+"/"+f[9]] = true
		}
	}
	return out, nil
}

func vpC41GetUniverse(t *testing.T) *vpC41Universe {
	vpC41UniOnce.Do(func() {
		u := &vpC41Universe{hangKeys: map[string]bool{}}
		for i := 1; i <= 3; i++ {
			u.listenIP = append(u.listenIP, fmt.Sprintf("127.0.41.%d", i))
			u.refuseIP = append(u.refuseIP, fmt.Sprintf("127.0.41.%d", 10+i))
		}
		for i := 1; i <= 4; i++ {
			u.hangIP = append(u.hangIP, fmt.Sprintf("127.0.41.%d", 20+i))
		}
		for attempt := 0; attempt < 40 && len(u.ports) < 2; attempt++ {
			if p, ok := u.tryPort(); ok {
				u.ports = append(u.ports, p)
			}
		}
		if len(u.ports) < 2 {
			u.err = errors.New("could not find two ports that are free on all 127.0.41.x test addresses")
			vpC41Uni = u
			return
		}
		// fill the accept queues of the hanging endpoints until connects stop completing
		var wg sync.WaitGroup
		var mu sync.Mutex
		for _, port := range u.ports {
			for _, ip := range u.hangIP {
				u.hangKeys[vpC41ProcKey(ip, port)] = true
				wg.Add(1)
				go func(addr string) {
					defer wg.Done()
					timeouts := 0
					for i := 0; i < 8 && timeouts < 2; i++ {
						c, err := net.DialTimeout("tcp4", addr, vpC41PrefillProbe)
						if err == nil {
							timeouts = 0
							mu.Lock()
							u.keep = append(u.keep, c)
							mu.Unlock()
							continue
						}
						var ne net.Error
						if errors.As(err, &ne) && ne.Timeout() {
							timeouts++
							continue
						}
						mu.Lock()
						u.err = fmt.Errorf("hanging endpoint %s: unexpected connect error %v", addr, err)
						mu.Unlock()
						return
					}
					if timeouts < 2 {
						mu.Lock()
						u.err = fmt.Errorf("hanging endpoint %s keeps accepting connections (backlog-0 trick does not work here)", addr)
						mu.Unlock()
					}
				}(fmt.Sprintf("%s:%d", ip, port))
			}
		}
		wg.Wait()
		if u.err == nil {
			// self-test of the observation: one plain dial towards a hanging endpoint must show up as one SYN_SENT row
			if n, err := vpC41SynSent(u.hangKeys); err != nil || len(n) != 0 {
				u.err = fmt.Errorf("observer self-test: %d SYN_SENT rows before any dial (err %v)", len(n), err)
			} else {
				done := make(chan struct{})
				go func() {
					defer close(done)
					if c, err := net.DialTimeout("tcp4", fmt.Sprintf("%s:%d", u.hangIP[1], u.ports[1]), 1500*time.Millisecond); err == nil {
						c.Close()
					}
				}()
				seen := false
				for start := time.Now(); time.Since(start) < 1200*time.Millisecond && !seen; time.Sleep(5 * time.Millisecond) {
					if n, _ := vpC41SynSent(u.hangKeys); len(n) == 1 {
						seen = true
					}
				}
				<-done
				if !seen {
					u.err = errors.New("observer self-test: a dial in progress towards a hanging endpoint is not visible as a SYN_SENT row in /proc/net/tcp")
				}
			}
		}
		vpC41Uni = u
	})
	if vpC41Uni.err != nil {
		// environment problem, not a property violation: the driver maps this marker to exit 2
		t.Fatalf("VP-INCONCLUSIVE: C41 test universe unavailable: %v", vpC41Uni.err)
	}
	return vpC41Uni
}

// ---- fake resolver -------------------------------------------------------------------------

type vpC41Resolver struct {
	mu    sync.Mutex
	hosts map[string][]net.IPAddr
	calls map[string]int
}

func (r *vpC41Resolver) LookupIPAddr(ctx context.Context, host string) ([]net.IPAddr, error) {
	r.mu.Lock()
	defer r.mu.Unlock()
	r.calls[host]++
	ips, ok := r.hosts[host]
	if !ok {
		return nil, fmt.Errorf("vpC41 resolver: unknown host %q", host)
	}
	return append([]net.IPAddr(nil), ips...), nil
}

const (
	vpC41KListen = 0
	vpC41KRefuse = 1
	vpC41KHang   = 2
)

type vpC41Host struct {
	name  string
	port  int
	kinds []int
	ips   []string
	addrs map[string]int // "ip:port" -> kind
	nKind [3]int
}

func (h *vpC41Host) addr() string { return fmt.Sprintf("%s:%d", h.name, h.port) }

func (h *vpC41Host) shape() string {
	var sb strings.Builder
	for _, k := range h.kinds {
		sb.WriteByte("LRH"[k])
	}
	return sb.String()
}

// vpC41GenHost draws a host: an ordered list of distinct endpoints of the allowed kinds.
func vpC41GenHost(t *rapid.T, u *vpC41Universe, idx int, kinds []int, maxLen int) *vpC41Host {
	h := &vpC41Host{name: fmt.Sprintf("h%d.vp41.test", idx), addrs: map[string]int{}}
	h.port = u.ports[rapid.IntRange(0, len(u.ports)-1).Draw(t, "port")]
	n := rapid.IntRange(1, maxLen).Draw(t, "nAddrs")
	pools := [3][]string{append([]string(nil), u.listenIP...), append([]string(nil), u.refuseIP...), append([]string(nil), u.hangIP...)}
	for i := 0; i < n; i++ {
		k := rapid.SampledFrom(kinds).Draw(t, "kind")
		if len(pools[k]) == 0 {
			continue
		}
		j := rapid.IntRange(0, len(pools[k])-1).Draw(t, "ip")
		ip := pools[k][j]
		pools[k] = append(pools[k][:j:j], pools[k][j+1:]...)
		h.kinds = append(h.kinds, k)
		h.ips = append(h.ips, ip)
		h.addrs[fmt.Sprintf("%s:%d", ip, h.port)] = k
		h.nKind[k]++
	}
	return h
}

func vpC41NewDialer(t *rapid.T, hosts []*vpC41Host, conc int) (*TCPDialer, *vpC41Resolver) {
	res := &vpC41Resolver{hosts: map[string][]net.IPAddr{}, calls: map[string]int{}}
	for _, h := range hosts {
		var ips []net.IPAddr
		for _, ip := range h.ips {
			ips = append(ips, net.IPAddr{IP: net.ParseIP(ip)})
		}
		res.hosts[h.name] = ips
	}
	d := &TCPDialer{Concurrency: conc, Resolver: res}
	if rapid.IntRange(0, 3).Draw(t, "shortDNSCache") == 0 {
		d.DNSCacheDuration = 20 * time.Millisecond // forces re-resolution between dials
	}
	return d, res
}

type vpC41Dial struct {
	host    int
	timeout time.Duration
	dual    bool
	delay   time.Duration
	// results
	err            error
	elapsed        time.Duration
	control        time.Duration // when a control timer armed for the same timeout at the same moment actually fired (0: dial returned earlier)
	remote         string
	greeting       string
	ok             bool
	knownIOTimeout bool // outcome falls in the open known finding C41/poller-timeout-not-errdialtimeout
}

func vpC41DoDial(d *TCPDialer, h *vpC41Host, dl *vpC41Dial) {
	if dl.delay > 0 {
		time.Sleep(dl.delay)
	}
	start := time.Now()
	ctl := make(chan time.Duration, 1)
	tm := time.AfterFunc(dl.timeout, func() { ctl <- time.Since(start) })
	var c net.Conn
	var err error
	if dl.dual {
		c, err = d.DialDualStackTimeout(h.addr(), dl.timeout)
	} else {
		c, err = d.DialTimeout(h.addr(), dl.timeout)
	}
	dl.elapsed = time.Since(start)
	if tm.Stop() {
		dl.control = 0 // the dial returned before its timeout
		if dl.elapsed > dl.timeout {
			// the control timer is overdue but has not fired yet (timers live on per-P heaps and the
			// process was stalled): its lateness is at least the time that has passed so far
			dl.control = dl.elapsed
		}
	} else {
		dl.control = <-ctl // how late timers run in this process right now
	}
	dl.err = err
	if err == nil && c != nil {
		dl.ok = true
		dl.remote = c.RemoteAddr().String()
		c.SetReadDeadline(time.Now().Add(5 * time.Second)) //nolint:errcheck
		line, _ := bufio.NewReader(c).ReadString('\n')
		dl.greeting = strings.TrimSpace(line)
		c.Close()
	} else if c != nil {
		c.Close()
	}
}

// vpC41CheckDial applies the per-dial oracle; hang says whether the timeout can legitimately elapse.
func vpC41CheckDial(h *vpC41Host, dl *vpC41Dial, i int, hang bool) string {
	where := fmt.Sprintf("dial #%d to %s [%s] timeout %v", i, h.addr(), h.shape(), dl.timeout)
	if dl.err == nil {
		if !dl.ok {
			return where + ": returned (nil, nil)"
		}
		if k, known := h.addrs[dl.remote]; !known || k != vpC41KListen {
			return fmt.Sprintf("%s: succeeded with a connection to %s, which is not a listening address of this host", where, dl.remote)
		}
		if dl.greeting != "" && dl.greeting != "VP41 "+dl.remote {
			return fmt.Sprintf("%s: connection to %s was greeted with %q", where, dl.remote, dl.greeting)
		}
		return ""
	}
	if dl.ok {
		return where + ": returned both a connection and an error"
	}
	if errors.Is(dl.err, ErrDialTimeout) {
		if dl.elapsed > max(dl.timeout, dl.control)+vpC41Slack {
			return fmt.Sprintf("%s: ErrDialTimeout returned after %v (limit: timeout + %v slack; a control timer for the same timeout fired after %v)", where, dl.elapsed.Round(time.Millisecond), vpC41Slack, dl.control.Round(time.Millisecond))
		}
		var up *ErrDialWithUpstream
		if !errors.As(dl.err, &up) {
			return fmt.Sprintf("%s: ErrDialTimeout is not wrapped in *ErrDialWithUpstream: %v", where, dl.err)
		}
		if _, known := h.addrs[up.Upstream]; !known {
			return fmt.Sprintf("%s: ErrDialTimeout names upstream %q, not one of the host's resolved addresses", where, up.Upstream)
		}
		if !hang {
			return fmt.Sprintf("%s: ErrDialTimeout after %v although nothing in this scenario can make a dial wait", where, dl.elapsed.Round(time.Millisecond))
		}
		return ""
	}
	// any other error: only possible when every address refused
	if hang && vpC41IsPollerTimeout(dl.err) && vpKnownOpen(vpC41KeyIOTimeout) && dl.elapsed <= max(dl.timeout, dl.control)+vpC41Slack {
		var up *ErrDialWithUpstream
		errors.As(dl.err, &up)
		if k, known := h.addrs[up.Upstream]; known && k == vpC41KHang {
			// known finding: the timeout of the last address tried is reported as the poller's "i/o timeout"
			vpExclude(vpC41KeyIOTimeout)
			dl.knownIOTimeout = true
			return ""
		}
	}
	if hang && vpKnownOpen(vpC41KeyIOTimeout) && h.nKind[vpC41KHang] > 0 && h.nKind[vpC41KRefuse] > 0 &&
		dl.elapsed >= dl.timeout-20*time.Millisecond && dl.elapsed <= max(dl.timeout, dl.control)+vpC41Slack {
		var up *ErrDialWithUpstream
		if errors.As(dl.err, &up) && h.addrs[up.Upstream] == vpC41KRefuse {
			// same known finding, second face: the hanging address's timeout was not recognised, so dial()
			// went on to the next address with microseconds left and that one refused just in time
			if _, known := h.addrs[up.Upstream]; known {
				vpExclude(vpC41KeyIOTimeout)
				dl.knownIOTimeout = true
				return ""
			}
		}
	}
	if dl.elapsed > max(dl.timeout, dl.control)+vpC41Slack {
		return fmt.Sprintf("%s: failed with %v after %v (limit: timeout + %v slack; control timer fired after %v)", where, dl.err, dl.elapsed.Round(time.Millisecond), vpC41Slack, dl.control.Round(time.Millisecond))
	}
	if h.nKind[vpC41KListen] > 0 || h.nKind[vpC41KHang] > 0 {
		return fmt.Sprintf("%s: failed with %v although not all addresses refuse (every resolved address must be tried; a hanging one ends in ErrDialTimeout)", where, dl.err)
	}
	return ""
}

// ---- scenarios without hanging endpoints -----------------------------------------------------

func TestVP_C41_NoHang(t *testing.T) {
	u := vpC41GetUniverse(t)
	rapid.Check(t, func(t *rapid.T) {
		conc := rapid.IntRange(0, 4).Draw(t, "concurrency")
		nHosts := rapid.IntRange(1, 3).Draw(t, "hosts")
		var hosts []*vpC41Host
		for i := 0; i < nHosts; i++ {
			var h *vpC41Host
			switch rapid.IntRange(0, 3).Draw(t, "hostShape") {
			case 0: // only listening: rotation
				h = vpC41GenHost(t, u, i, []int{vpC41KListen}, 3)
			case 1: // refusing addresses and exactly one listening one somewhere in the list
				h = vpC41GenHost(t, u, i, []int{vpC41KRefuse}, 3)
				pos := rapid.IntRange(0, len(h.ips)).Draw(t, "listenPos")
				ip := u.listenIP[rapid.IntRange(0, len(u.listenIP)-1).Draw(t, "listenIP")]
				h.ips = append(h.ips[:pos:pos], append([]string{ip}, h.ips[pos:]...)...)
				h.kinds = append(h.kinds[:pos:pos], append([]int{vpC41KListen}, h.kinds[pos:]...)...)
				h.addrs[fmt.Sprintf("%s:%d", ip, h.port)] = vpC41KListen
				h.nKind[vpC41KListen]++
			case 2: // only refusing
				h = vpC41GenHost(t, u, i, []int{vpC41KRefuse}, 3)
			default:
				h = vpC41GenHost(t, u, i, []int{vpC41KListen, vpC41KRefuse}, 5)
			}
			hosts = append(hosts, h)
		}
		d, res := vpC41NewDialer(t, hosts, conc)
		defer d.FlushDNSCache()
		shortCache := d.DNSCacheDuration != 0
		var problems []string
		// sequential phase: r*k dials per host
		rounds := rapid.IntRange(1, 3).Draw(t, "rounds")
		dual := rapid.Bool().Draw(t, "dual")
		rotationChecked := false
		for _, h := range hosts {
			used := map[string]int{}
			for i := 0; i < rounds*len(h.ips); i++ {
				dl := &vpC41Dial{timeout: vpC41LongTimeout, dual: dual}
				vpC41DoDial(d, h, dl)
				if p := vpC41CheckDial(h, dl, i, false); p != "" {
					problems = append(problems, "sequential "+p)
				}
				if h.nKind[vpC41KListen] > 0 && dl.err != nil {
					problems = append(problems, fmt.Sprintf("sequential dial #%d to %s [%s] failed with %v although a resolved address is listening (every address must be tried before failing)", i, h.addr(), h.shape(), dl.err))
				}
				if h.nKind[vpC41KListen] == 0 && dl.err == nil {
					problems = append(problems, fmt.Sprintf("sequential dial #%d to %s [%s] succeeded although no address listens", i, h.addr(), h.shape()))
				}
				if dl.ok {
					used[dl.remote]++
				}
			}
			if h.nKind[vpC41KRefuse] == 0 && len(h.ips) > 1 && !shortCache {
				// all addresses listen: r*k sequential dials in rotation must have used every one of them
				rotationChecked = true
				for a := range h.addrs {
					if used[a] == 0 {
						problems = append(problems, fmt.Sprintf("rotation: %d sequential dials to %s [%s] never used address %s (used: %v)", rounds*len(h.ips), h.addr(), h.shape(), a, used))
					}
				}
			}
		}
		// concurrent phase
		nd := rapid.IntRange(0, 16).Draw(t, "concurrentDials")
		dials := make([]*vpC41Dial, nd)
		var wg sync.WaitGroup
		for i := range dials {
			dials[i] = &vpC41Dial{host: rapid.IntRange(0, nHosts-1).Draw(t, "dialHost"), timeout: vpC41LongTimeout, dual: rapid.Bool().Draw(t, "dialDual")}
		}
		for i := range dials {
			wg.Add(1)
			go func(dl *vpC41Dial) {
				defer wg.Done()
				vpC41DoDial(d, hosts[dl.host], dl)
			}(dials[i])
		}
		allBack := make(chan struct{})
		go func() { wg.Wait(); close(allBack) }()
		select {
		case <-allBack:
		case <-time.After(vpC41LongTimeout + vpC41Overdue):
			t.Fatalf("%d concurrent dials with timeout %v: not all of them had returned %v after that timeout expired", nd, vpC41LongTimeout, vpC41Overdue)
		}
		for i, dl := range dials {
			h := hosts[dl.host]
			if p := vpC41CheckDial(h, dl, i, false); p != "" {
				problems = append(problems, "concurrent "+p)
			}
			if h.nKind[vpC41KListen] > 0 && dl.err != nil {
				problems = append(problems, fmt.Sprintf("concurrent dial #%d to %s [%s] failed with %v although a resolved address is listening", i, h.addr(), h.shape(), dl.err))
			}
			if h.nKind[vpC41KListen] == 0 && dl.err == nil {
				problems = append(problems, fmt.Sprintf("concurrent dial #%d to %s [%s] succeeded although no address listens", i, h.addr(), h.shape()))
			}
		}
		_ = res
		if len(problems) > 0 {
			if len(problems) > 8 {
				problems = problems[:8]
			}
			t.Fatalf("TCPDialer{Concurrency:%d}:\n  %s", conc, strings.Join(problems, "\n  "))
		}
		shapes := make([]string, len(hosts))
		mixed := false
		for i, h := range hosts {
			shapes[i] = h.shape()
			if h.nKind[vpC41KRefuse] > 0 && h.nKind[vpC41KListen] > 0 {
				mixed = true
			}
		}
		class := "nohang/"
		switch {
		case mixed:
			class += "refusing-before-or-after-listening"
		case rotationChecked:
			class += "rotation-over-listening-addresses"
		default:
			class += "single-kind"
		}
		vpCase(class, mixed || rotationChecked, fmt.Sprintf("c%d %v r%d n%d", conc, shapes, rounds, nd), func() string {
			return fmt.Sprintf("Concurrency=%d hosts=%v rounds=%d concurrentDials=%d", conc, shapes, rounds, nd)
		})
	})
}

// ---- scenarios with hanging endpoints ----------------------------------------------------------

type vpC41Sample struct {
	at   time.Duration
	conn map[string]bool
}

const vpC41Overdue = 15 * time.Second

func TestVP_C41_Hang(t *testing.T) {
	u := vpC41GetUniverse(t)
	vpC41ProbeIOTimeout(u)
	rapid.Check(t, func(t *rapid.T) {
		conc := rapid.IntRange(1, 4).Draw(t, "concurrency")
		nHosts := rapid.IntRange(1, 3).Draw(t, "hosts")
		var hosts []*vpC41Host
		for i := 0; i < nHosts; i++ {
			var h *vpC41Host
			switch rapid.IntRange(0, 4).Draw(t, "hostShape") {
			case 0, 1: // only hanging addresses
				h = vpC41GenHost(t, u, i, []int{vpC41KHang}, 4)
			case 2:
				h = vpC41GenHost(t, u, i, []int{vpC41KHang, vpC41KHang, vpC41KListen}, 4)
			case 3:
				h = vpC41GenHost(t, u, i, []int{vpC41KHang, vpC41KHang, vpC41KRefuse}, 4)
			default:
				h = vpC41GenHost(t, u, i, []int{vpC41KHang, vpC41KHang, vpC41KListen, vpC41KRefuse}, 5)
			}
			hosts = append(hosts, h)
		}
		if i := rapid.IntRange(0, nHosts-1).Draw(t, "forceHangHost"); hosts[i].nKind[vpC41KHang] == 0 {
			hosts[i] = vpC41GenHost(t, u, i, []int{vpC41KHang}, 4) // every scenario has a hanging address
		}
		// one scenario in ten: the slots are first taken by dials with a LONG timeout (1.2 s) to an
		// all-hanging host, then short-timeout dials arrive. A dial that waits for a slot must still give
		// up at its own timeout; with all timeouts in 100-300 ms the wait could never exceed the slack.
		longOcc := rapid.IntRange(0, 9).Draw(t, "longOccupants") == 5
		if longOcc && hosts[0].nKind[vpC41KHang] != len(hosts[0].ips) {
			hosts[0] = vpC41GenHost(t, u, 0, []int{vpC41KHang}, 4)
		}
		d, _ := vpC41NewDialer(t, hosts, conc)
		defer d.FlushDNSCache()
		nd := rapid.IntRange(1, 24).Draw(t, "dials")
		if longOcc {
			nd = max(nd, conc+rapid.IntRange(1, 6).Draw(t, "victims"))
		}
		if rapid.IntRange(0, 2).Draw(t, "overload") == 0 {
			nd = max(nd, conc+rapid.IntRange(1, 8).Draw(t, "extra")) // more dials than slots
		}
		sameStart := rapid.Bool().Draw(t, "sameStart")
		dials := make([]*vpC41Dial, nd)
		for i := range dials {
			dials[i] = &vpC41Dial{
				host:    rapid.IntRange(0, nHosts-1).Draw(t, "dialHost"),
				timeout: time.Duration(rapid.IntRange(100, 300).Draw(t, "timeoutMs")) * time.Millisecond,
				dual:    rapid.Bool().Draw(t, "dialDual"),
			}
			if !sameStart {
				dials[i].delay = time.Duration(rapid.IntRange(0, 60).Draw(t, "delayMs")) * time.Millisecond
			}
		}
		if longOcc {
			for i := range dials {
				if i < conc {
					dials[i].host, dials[i].timeout, dials[i].delay = 0, vpC41OccupantTimeout, 0
				} else {
					dials[i].delay = time.Duration(40+rapid.IntRange(0, 40).Draw(t, "victimDelayMs")) * time.Millisecond
					if rapid.Bool().Draw(t, "patientVictim") {
						// a victim that outlasts the occupants: it gets a slot after ~1.2 s and must then only
						// use what is LEFT of its own timeout for the (hanging) connect, not a fresh full one
						dials[i].host, dials[i].timeout = 0, vpC41OccupantTimeout+300*time.Millisecond
					}
				}
			}
		}
		// observer
		var samples []vpC41Sample
		var stop atomic.Bool
		var sampErr error
		sdone := make(chan struct{})
		start := time.Now()
		go func() {
			defer close(sdone)
			for !stop.Load() {
				n, err := vpC41SynSent(u.hangKeys)
				if err != nil {
					sampErr = err
					return
				}
				samples = append(samples, vpC41Sample{time.Since(start), n})
				if len(samples) > 1 {
					time.Sleep(vpC41SampleEvery)
				}
			}
		}()
		// heartbeat: a goroutine that only sleeps 10 ms at a time. The longest gap between two beats says
		// whether this process was scheduled normally while the dials ran; after a stall the "returned
		// within timeout + slack" clause cannot be judged for this scenario (everything else still is).
		var maxBeatGap time.Duration
		hdone := make(chan struct{})
		go func() {
			defer close(hdone)
			last := time.Now()
			for !stop.Load() {
				time.Sleep(10 * time.Millisecond)
				now := time.Now()
				maxBeatGap = max(maxBeatGap, now.Sub(last)-10*time.Millisecond)
				last = now
			}
		}()
		returned := make([]chan struct{}, len(dials))
		var longest time.Duration
		for i := range dials {
			returned[i] = make(chan struct{})
			longest = max(longest, dials[i].delay+dials[i].timeout)
			go func(dl *vpC41Dial, done chan struct{}) {
				defer close(done)
				vpC41DoDial(d, hosts[dl.host], dl)
			}(dials[i], returned[i])
		}
		// every dial has its own timeout: one that has not returned vpC41Overdue after the last of them
		// should have fired never will (nominal: all return within the longest timeout + milliseconds)
		overdue := time.NewTimer(longest + vpC41Overdue)
		defer overdue.Stop()
		var stuck []string
		expired := false
		for i := range dials {
			if !expired {
				select {
				case <-returned[i]:
					continue
				case <-overdue.C:
					expired = true
				}
			}
			select {
			case <-returned[i]:
			default:
				stuck = append(stuck, fmt.Sprintf("#%d (timeout %v, started at +%v)", i, dials[i].timeout, dials[i].delay))
			}
		}
		stop.Store(true)
		<-sdone
		<-hdone
		if len(stuck) > 0 {
			t.Fatalf("TCPDialer{Concurrency:%d}, %d dials: dial(s) %s had not returned %v after the longest timeout (%v) expired; longest heartbeat gap %v", conc, nd, strings.Join(stuck, ", "), vpC41Overdue, longest, maxBeatGap.Round(time.Millisecond))
		}
		stalled := maxBeatGap > vpC41StallGap
		if stalled {
			vpExtra("hang_scenarios_with_process_stall_timing_not_judged", 1)
			for _, dl := range dials {
				dl.control = max(dl.control, dl.elapsed) // neutralises only the elapsed-time clause
			}
		}
		if sampErr != nil {
			t.Fatalf("VP-INCONCLUSIVE: cannot read /proc/net/tcp: %v", sampErr)
		}
		var problems []string
		// dials in progress never exceed Concurrency. One read of /proc/net/tcp is not atomic (it can show
		// a closing socket together with its successor), so simultaneity is established per socket: a
		// socket listed by two consecutive reads was connecting during the whole gap between them; more
		// than Concurrency such sockets = more than Concurrency dials in progress at one instant.
		maxSeen := 0
		for i, s := range samples {
			if i == 0 {
				continue
			}
			both := 0
			for id := range s.conn {
				if samples[i-1].conn[id] {
					both++
				}
			}
			maxSeen = max(maxSeen, both)
			if both > conc {
				problems = append(problems, fmt.Sprintf("%d connects towards hanging endpoints were in progress at the same time (listed by the reads at %v and at %v) with Concurrency %d",
					both, samples[i-1].at.Round(time.Millisecond), s.at.Round(time.Millisecond), conc))
				break
			}
		}
		nTimeout, nOK, nRefused := 0, 0, 0
		for i, dl := range dials {
			h := hosts[dl.host]
			if p := vpC41CheckDial(h, dl, i, true); p != "" {
				problems = append(problems, p)
			}
			switch {
			case dl.err == nil:
				nOK++
			case errors.Is(dl.err, ErrDialTimeout) || dl.knownIOTimeout:
				nTimeout++
			default:
				nRefused++
			}
			// a host whose addresses all hang can only time out
			if h.nKind[vpC41KHang] == len(h.ips) && !errors.Is(dl.err, ErrDialTimeout) && !dl.knownIOTimeout {
				problems = append(problems, fmt.Sprintf("dial #%d to %s [%s]: every address hangs, want ErrDialTimeout, got %v", i, h.addr(), h.shape(), dl.err))
			}
		}
		if n, _ := vpC41SynSent(u.hangKeys); len(n) != 0 {
			problems = append(problems, fmt.Sprintf("%d connects towards hanging endpoints are still in progress after every dial returned", len(n)))
		}
		if len(problems) > 0 {
			if len(problems) > 8 {
				problems = problems[:8]
			}
			shapes := make([]string, len(hosts))
			for i, h := range hosts {
				shapes[i] = h.shape()
			}
			t.Fatalf("TCPDialer{Concurrency:%d}, hosts %v, %d dials, max SYN_SENT seen %d in %d samples, longest heartbeat gap %v:\n  %s", conc, shapes, nd, maxSeen, len(samples), maxBeatGap.Round(time.Millisecond), strings.Join(problems, "\n  "))
		}
		shapes := make([]string, len(hosts))
		for i, h := range hosts {
			shapes[i] = h.shape()
		}
		sort.Strings(shapes)
		class := "hang/"
		if longOcc {
			class = "hang/long-occupants/"
		}
		switch {
		case nd > conc && maxSeen == conc:
			class += "more-dials-than-slots-bound-reached"
		case nd > conc:
			class += "more-dials-than-slots-bound-not-seen"
		case maxSeen > 0:
			class += "within-slots"
		default:
			class += "no-syn-sent-seen"
		}
		vpExtra("hang_dials_timed_out", int64(nTimeout))
		vpExtra("hang_dials_connected", int64(nOK))
		vpExtra("hang_dials_refused", int64(nRefused))
		vpExtra("hang_observer_samples", int64(len(samples)))
		vpCase(class, nTimeout > 0 && maxSeen > 0, fmt.Sprintf("c%d %v n%d %v", conc, shapes, nd, dials), func() string {
			return fmt.Sprintf("Concurrency=%d hosts=%v dials=%d timedOut=%d connected=%d refused=%d maxSynSent=%d samples=%d", conc, shapes, nd, nTimeout, nOK, nRefused, maxSeen, len(samples))
		})
	})
}
