package fasthttp

// C15: a Shutdown call that arrives while an accept loop is between Accept and serving the accepted connection.
//
// Serve calls the ConnState hook with StateNew for a connection it has just accepted, before the connection is
// counted or handed to a worker. The harness owns that instant: the hook of one designated connection blocks, the
// Shutdown call is made while it blocks, and the harness lets the accept loop continue only after a hold that is
// longer than Shutdown's polling interval (or as soon as Shutdown returned, whichever comes first). The server has
// 1-3 listeners, the designated connection comes in through a generated one of them (listeners are registered in
// index order), with or without an idle keep-alive connection elsewhere.
//
// Oracle (facts named by the property): when Shutdown returned nil, Serve has returned for every listener, no
// handler is running and none starts later, and a request whose handler started got its complete response.

import (
	"bufio"
	"bytes"
	"context"
	"fmt"
	"io"
	"net"
	"net/http"
	"sync"
	"sync/atomic"
	"testing"
	"time"

	"github.com/valyala/fasthttp/fasthttputil"
	"pgregory.net/rapid"
)

func TestVP_C15_AcceptInFlight(t *testing.T) {
	rapid.Check(t, func(t *rapid.T) {
		nl := rapid.IntRange(1, 3).Draw(t, "listeners")
		target := rapid.IntRange(0, nl-1).Draw(t, "targetListener")
		withCtx := rapid.Bool().Draw(t, "withCtx")
		idleOn := rapid.IntRange(-1, nl-1).Draw(t, "idleConnOn") // -1: no idle keep-alive connection
		reqEarly := rapid.Bool().Draw(t, "requestBeforeAccept")
		holdMs := rapid.SampledFrom([]int{130, 160, 220}).Draw(t, "holdMs")
		desc := fmt.Sprintf("listeners=%d accept-in-flight on listener %d, idle keep-alive connection on %d, ShutdownWithContext=%v, request sent before accept=%v, hold=%dms",
			nl, target, idleOn, withCtx, reqEarly, holdMs)

		var armed, returned atomic.Bool
		var running, startedAfterReturn atomic.Int32
		inNew := make(chan struct{})
		release := make(chan struct{})
		var mu sync.Mutex
		var started []string
		s := &Server{
			Logger: vpNopLogger{},
			Handler: func(ctx *RequestCtx) {
				running.Add(1)
				if returned.Load() {
					startedAfterReturn.Add(1)
				}
				mu.Lock()
				started = append(started, string(ctx.Path()))
				mu.Unlock()
				ctx.SetBodyString("answer to " + string(ctx.Path()))
				running.Add(-1)
			},
			ConnState: func(c net.Conn, st ConnState) {
				if st == StateNew && armed.CompareAndSwap(true, false) {
					close(inNew)
					<-release
				}
			},
		}
		lns := make([]*fasthttputil.InmemoryListener, nl)
		served := make([]chan error, nl)
		for i := range lns {
			lns[i] = fasthttputil.NewInmemoryListener()
			served[i] = make(chan error, 1)
			go func(i int) { served[i] <- s.Serve(lns[i]) }(i)
			if !vpC15WaitRegistered(s, i+1) {
				close(release)
				t.Fatalf("VP-INCONCLUSIVE: Serve did not register listener %d", i)
			}
		}
		released := false
		doRelease := func() {
			if !released {
				released = true
				close(release)
			}
		}
		defer func() {
			doRelease()
			for _, l := range lns {
				l.Close()
			}
		}()
		if idleOn >= 0 {
			c, err := lns[idleOn].Dial()
			if err != nil {
				t.Fatalf("VP-INCONCLUSIVE: dial: %v", err)
			}
			defer c.Close()
			c.Write([]byte("GET /idle HTTP/1.1\r\nHost: h\r\n\r\n"))
			br := bufio.NewReader(c)
			resp, err := http.ReadResponse(br, nil)
			if err != nil {
				t.Fatalf("VP-INCONCLUSIVE: warm-up request on the idle connection: %v", err)
			}
			io.Copy(io.Discard, resp.Body)
		}
		armed.Store(true)
		c, err := lns[target].Dial()
		if err != nil {
			t.Fatalf("VP-INCONCLUSIVE: dial: %v", err)
		}
		defer c.Close()
		req := []byte("GET /inflight HTTP/1.1\r\nHost: h\r\n\r\n")
		if reqEarly {
			c.Write(req)
		}
		got := make(chan []byte, 1)
		go func() {
			c.SetReadDeadline(time.Now().Add(30 * time.Second))
			b, _ := io.ReadAll(c)
			got <- b
		}()
		select {
		case <-inNew:
		case <-time.After(20 * time.Second):
			t.Fatalf("VP-INCONCLUSIVE: the accepted connection was not reported StateNew within 20s")
		}
		shut := make(chan error, 1)
		go func() {
			var err error
			if withCtx {
				ctx, cancel := context.WithTimeout(context.Background(), 25*time.Second)
				defer cancel()
				err = s.ShutdownWithContext(ctx)
			} else {
				err = s.Shutdown()
			}
			returned.Store(true)
			shut <- err
		}()
		var shutErr error
		early := false
		select {
		case shutErr = <-shut:
			early = true
		case <-time.After(time.Duration(holdMs) * time.Millisecond):
		}
		if early && shutErr == nil {
			// the accept loop of listener `target` is still inside the StateNew hook: it has not returned
			doRelease()
			t.Fatalf("C15 violation: Shutdown returned nil while Serve on listener %d was still between Accept and serving the connection it accepted (Serve has not returned; the connection's request is served after Shutdown)\n%s", target, desc)
		}
		doRelease()
		if !reqEarly {
			c.Write(req)
		}
		if !early {
			select {
			case shutErr = <-shut:
			case <-time.After(30 * time.Second):
				t.Fatalf("VP-INCONCLUSIVE: Shutdown did not return within 30s after the accept loop continued\n%s", desc)
			}
		}
		if shutErr != nil {
			t.Fatalf("VP-INCONCLUSIVE: Shutdown returned %v\n%s", shutErr, desc)
		}
		if n := running.Load(); n != 0 {
			t.Fatalf("C15 violation: %d handler(s) running when Shutdown returned nil\n%s", n, desc)
		}
		for i := range served {
			select {
			case <-served[i]:
			case <-time.After(vpC15Slack):
				t.Fatalf("C15 violation: Shutdown returned nil but Serve on listener %d has not returned %v later\n%s", i, vpC15Slack, desc)
			}
		}
		var out []byte
		select {
		case out = <-got:
		case <-time.After(vpC15Slack):
			t.Fatalf("C15 violation: Shutdown returned nil but the connection accepted during the call is still open at its client %v later\n%s", vpC15Slack, desc)
		}
		if n := startedAfterReturn.Load(); n != 0 {
			t.Fatalf("C15 violation: %d handler(s) started after Shutdown had returned nil\n%s", n, desc)
		}
		mu.Lock()
		handled := false
		for _, p := range started {
			if p == "/inflight" {
				handled = true
			}
		}
		mu.Unlock()
		if handled {
			resp, err := http.ReadResponse(bufio.NewReader(bytes.NewReader(out)), nil)
			if err != nil {
				t.Fatalf("C15 violation: the handler of the request accepted during Shutdown started, but its response is not complete at the client: %v (%s)\n%s", err, vpQuote(out, 200), desc)
			}
			body, err := io.ReadAll(resp.Body)
			if err != nil || string(body) != "answer to /inflight" {
				t.Fatalf("C15 violation: response to the request accepted during Shutdown: body %q err %v\n%s", body, err, desc)
			}
		}
		vpCase(fmt.Sprintf("accept-in-flight/listeners=%d/handled=%v", nl, handled), nl >= 2 || idleOn >= 0, desc, func() string {
			return fmt.Sprintf("%s -> handler ran=%v, %d response bytes", desc, handled, len(out))
		})
	})
}
