package fasthttp

// C06: one Cookie object with a history. A Cookie is a reusable object (AcquireCookie/ReleaseCookie, Reset,
// Parse over an object that was used before, CopyTo): "a Set-Cookie header produced by Cookie ... parses back
// with exactly the attributes that were set" has to hold for every serialisation in the object's life, not
// only for the first one of a fresh object. The generated history mixes setter calls, serialisations (each
// one judged against the model of that moment, by the same three parsers as TestVP_C06_SetCookie), Reset,
// CopyTo from another cookie, and ParseBytes / ResponseHeader.Cookie of another cookie's Set-Cookie value.

import (
	"bytes"
	"fmt"
	"strings"
	"testing"
	"time"

	"pgregory.net/rapid"
)

func vpC06BuildOther(t *rapid.T) (*vpC06Model, *Cookie) {
	m := &vpC06Model{}
	c := &Cookie{}
	m.key = vpC06GenArg(t, "okey", "key")
	c.SetKey(m.key.s)
	m.logf("SetKey(%q)", m.key.s)
	m.value = vpC06GenArg(t, "ovalue", "value")
	c.SetValue(m.value.s)
	m.logf("SetValue(%q)", m.value.s)
	for j, n := 0, rapid.IntRange(0, 6).Draw(t, "onops"); j < n; j++ {
		m.op(t, c)
	}
	return m, c
}

// what a cookie built as m describes looks like after its Set-Cookie value was parsed into a cookie
func (m *vpC06Model) afterParse() *vpC06Model {
	p := *m
	p.log = nil
	switch {
	case m.maxAge < 0: // written as max-age=0, which reads as "no max-age"; Expires is not written next to max-age
		p.maxAge, p.expire = 0, time.Time{}
	case m.maxAge > 0:
		p.expire = time.Time{}
	default:
		if !m.expire.IsZero() {
			p.expire = m.expire.Truncate(time.Second).UTC()
		}
	}
	if m.domain.s == "" {
		p.domainSet = false
	}
	return &p
}

func TestVP_C06_CookieObjectHistory(t *testing.T) {
	rapid.Check(t, func(t *rapid.T) {
		octets := rapid.IntRange(0, 9).Draw(t, "alloctets") < 5
		vpC06ForceOctets = octets
		defer func() { vpC06ForceOctets = false }()
		pooled := rapid.Bool().Draw(t, "pooled")
		var c *Cookie
		if pooled {
			c = AcquireCookie()
			defer ReleaseCookie(c)
		} else {
			c = &Cookie{}
		}
		m := &vpC06Model{}
		var hist []string
		serialisations, changesAfterSer, judged := 0, 0, 0
		serialise := func() {
			how := rapid.IntRange(0, 4).Draw(t, "serialiser")
			var out []byte
			switch how {
			case 0:
				out = append([]byte(nil), c.Cookie()...)
			case 1:
				out = []byte(c.String())
			case 2:
				out = c.AppendBytes(nil)
			case 3:
				var b bytes.Buffer
				c.WriteTo(&b)
				out = b.Bytes()
			default:
				var h ResponseHeader
				h.SetNoDefaultContentType(true)
				h.SetCookie(c)
				for _, l := range bytes.Split(h.Header(), []byte("\r\n")) {
					if len(l) >= 11 && strings.EqualFold(string(l[:11]), "set-cookie:") {
						out = append([]byte(nil), bytes.TrimLeft(l[11:], " ")...)
					}
				}
			}
			hist = append(hist, fmt.Sprintf("serialise#%d(via %d) -> %q", serialisations, how, out))
			serialisations++
			if m.key.s == "" || (how == 4 && out == nil) {
				return // a cookie without a name is outside what this history judges (see TestVP_C06_SetCookie)
			}
			judged++
			if msg := m.checkSetCookie(out); msg != "" {
				t.Fatalf("C06 cookie object history: %s\nserialised: %q\nmodel built by: %s\nhistory:\n  %s", msg, out, strings.Join(m.log, "; "), strings.Join(hist, "\n  "))
			}
		}
		nsteps := rapid.IntRange(3, 14).Draw(t, "nsteps")
		for i := 0; i < nsteps; i++ {
			k := rapid.IntRange(0, 11).Draw(t, "step")
			if k >= 3 && serialisations > 0 {
				changesAfterSer++
			}
			switch {
			case k <= 2:
				serialise()
			case k <= 7:
				if m.key.s == "" && len(m.log) == 0 {
					m.key = vpC06GenArg(t, "key", "key")
					c.SetKey(m.key.s)
					m.logf("SetKey(%q)", m.key.s)
					m.value = vpC06GenArg(t, "value", "value")
					c.SetValue(m.value.s)
					m.logf("SetValue(%q)", m.value.s)
				} else {
					m.op(t, c)
				}
				hist = append(hist, m.log[len(m.log)-1])
			case k == 8:
				c.Reset()
				m = &vpC06Model{}
				hist = append(hist, "Reset()")
			case k == 9:
				m2, c2 := vpC06BuildOther(t)
				c.CopyTo(c2)
				nm := *m2
				m = &nm
				hist = append(hist, "CopyTo(cookie built by "+strings.Join(m2.log, "; ")+")")
				m.log = []string{"CopyTo(" + strings.Join(m2.log, "; ") + ")"}
			default:
				// only cookies made of cookie-octets are promised to parse back unchanged
				vpC06ForceOctets = true
				m2, c2 := vpC06BuildOther(t)
				vpC06ForceOctets = octets
				if !m2.exact() {
					hist = append(hist, "(parse skipped: other cookie not exact)")
					continue
				}
				wire := append([]byte(nil), c2.Cookie()...)
				var err error
				if k == 10 {
					err = c.ParseBytes(wire)
					hist = append(hist, fmt.Sprintf("ParseBytes(%q)", wire))
				} else {
					var h ResponseHeader
					h.SetCookie(c2)
					c.SetKey(m2.key.s)
					if !h.Cookie(c) {
						t.Fatalf("C06 cookie object history: ResponseHeader.Cookie does not find cookie %q it was given\nhistory:\n  %s", m2.key.s, strings.Join(hist, "\n  "))
					}
					hist = append(hist, fmt.Sprintf("ResponseHeader.Cookie(c) of %q", wire))
				}
				if err != nil {
					t.Fatalf("C06 cookie object history: ParseBytes(%q) of a cookie made of cookie-octets: %v\nhistory:\n  %s", wire, err, strings.Join(hist, "\n  "))
				}
				m = m2.afterParse()
				m.log = []string{fmt.Sprintf("Parse(%q)", wire)}
			}
		}
		serialise()
		class := "cookie-history/hostile"
		if octets {
			class = "cookie-history/octets"
		}
		if pooled {
			class += "/pooled"
		}
		vpCase(class, serialisations >= 2 && changesAfterSer > 0 && judged >= 2, strings.Join(hist, " | "), func() string { return strings.Join(hist, " | ") })
	})
}
