package fasthttp

// C21 — https requests are never sent over a plaintext connection.
//
// Client.Dial / HostClient.Dial is a harness function that returns one end of an in-memory buffered
// pipe and records the dialled address. The harness endpoint classifies the first byte on each raw
// connection: 0x16 (a TLS handshake record, i.e. a ClientHello) or plaintext HTTP. For TLS it
// completes the handshake with a throw-away self-signed certificate (crypto/tls) and reads the
// inner requests; requests are parsed with net/http. Every URL used in a case (initial URLs and
// redirect targets) carries a unique id in its path, and the generator keeps a table
// id -> (scheme, host, port) computed by the harness itself. Oracle: a request with id i is only
// ever observed on a connection whose transport (TLS or not) equals the table's scheme and, for
// Client, whose dialled address (and SNI) is the table's host:port; a HostClient/LBClient member
// whose IsTLS differs from the request scheme returns ErrHostClientRedirectToDifferentScheme and
// not a single byte is written.

import (
	"bufio"
	"crypto/ecdsa"
	"crypto/elliptic"
	"crypto/rand"
	"crypto/tls"
	"crypto/x509"
	"crypto/x509/pkix"
	"errors"
	"fmt"
	"io"
	"math/big"
	"net"
	"net/http"
	"os"
	"regexp"
	"strconv"
	"strings"
	"sync"
	"sync/atomic"
	"testing"
	"time"

	"pgregory.net/rapid"
)

// ---- in-memory buffered duplex pipe with deadlines ----

type vpC21Half struct {
	mu     sync.Mutex
	cond   *sync.Cond
	buf    []byte
	wclose bool // writer side closed: reader gets EOF after draining
	rclose bool // reader side closed: writer gets an error
	total  int64
}

func vpC21NewHalf() *vpC21Half {
	h := &vpC21Half{}
	h.cond = sync.NewCond(&h.mu)
	return h
}

type vpC21Conn struct {
	r, w   *vpC21Half
	mu     sync.Mutex
	rd     time.Time
	timer  *time.Timer
	closed bool
	name   string
}

type vpC21Timeout struct{}

func (vpC21Timeout) Error() string   { return "vp: i/o timeout" }
func (vpC21Timeout) Timeout() bool   { return true }
func (vpC21Timeout) Temporary() bool { return true }

func vpC21Pipe() (*vpC21Conn, *vpC21Conn) {
	a, b := vpC21NewHalf(), vpC21NewHalf()
	return &vpC21Conn{r: a, w: b, name: "client"}, &vpC21Conn{r: b, w: a, name: "server"}
}

func (c *vpC21Conn) Read(p []byte) (int, error) {
	h := c.r
	h.mu.Lock()
	defer h.mu.Unlock()
	for {
		if h.rclose {
			return 0, net.ErrClosed
		}
		if len(h.buf) > 0 {
			n := copy(p, h.buf)
			h.buf = h.buf[n:]
			return n, nil
		}
		if h.wclose {
			return 0, io.EOF
		}
		c.mu.Lock()
		rd := c.rd
		c.mu.Unlock()
		if !rd.IsZero() && !time.Now().Before(rd) {
			return 0, vpC21Timeout{}
		}
		h.cond.Wait()
	}
}

func (c *vpC21Conn) Write(p []byte) (int, error) {
	h := c.w
	h.mu.Lock()
	defer h.mu.Unlock()
	if h.wclose || h.rclose {
		return 0, io.ErrClosedPipe
	}
	h.buf = append(h.buf, p...)
	h.total += int64(len(p))
	h.cond.Broadcast()
	return len(p), nil
}

func (c *vpC21Conn) Close() error {
	c.mu.Lock()
	if c.timer != nil {
		c.timer.Stop()
	}
	c.closed = true
	c.mu.Unlock()
	c.r.mu.Lock()
	c.r.rclose = true
	c.r.cond.Broadcast()
	c.r.mu.Unlock()
	c.w.mu.Lock()
	c.w.wclose = true
	c.w.cond.Broadcast()
	c.w.mu.Unlock()
	return nil
}

func (c *vpC21Conn) SetReadDeadline(t time.Time) error {
	c.mu.Lock()
	c.rd = t
	if c.timer != nil {
		c.timer.Stop()
		c.timer = nil
	}
	if !t.IsZero() && !c.closed {
		h := c.r
		c.timer = time.AfterFunc(time.Until(t)+time.Millisecond, func() {
			h.mu.Lock()
			h.cond.Broadcast()
			h.mu.Unlock()
		})
	}
	c.mu.Unlock()
	return nil
}
func (c *vpC21Conn) SetWriteDeadline(time.Time) error { return nil }
func (c *vpC21Conn) SetDeadline(t time.Time) error    { return c.SetReadDeadline(t) }
func (c *vpC21Conn) LocalAddr() net.Addr              { return &net.TCPAddr{IP: net.IPv4(127, 0, 0, 1), Port: 1} }
func (c *vpC21Conn) RemoteAddr() net.Addr             { return &net.TCPAddr{IP: net.IPv4(127, 0, 0, 2), Port: 2} }

// ---- throw-away certificate ----

var (
	vpC21CertOnce sync.Once
	vpC21Cert     tls.Certificate
	vpC21CertErr  error
)

func vpC21ServerTLS() (*tls.Config, error) {
	vpC21CertOnce.Do(func() {
		key, err := ecdsa.GenerateKey(elliptic.P256(), rand.Reader)
		if err != nil {
			vpC21CertErr = err
			return
		}
		tmpl := &x509.Certificate{
			SerialNumber: big.NewInt(21), Subject: pkix.Name{CommonName: "vp-c21"},
			NotBefore: time.Now().Add(-time.Hour), NotAfter: time.Now().Add(24 * time.Hour),
			KeyUsage: x509.KeyUsageDigitalSignature, ExtKeyUsage: []x509.ExtKeyUsage{x509.ExtKeyUsageServerAuth},
			DNSNames: []string{"*.test"},
		}
		der, err := x509.CreateCertificate(rand.Reader, tmpl, tmpl, &key.PublicKey, key)
		if err != nil {
			vpC21CertErr = err
			return
		}
		vpC21Cert = tls.Certificate{Certificate: [][]byte{der}, PrivateKey: key}
	})
	if vpC21CertErr != nil {
		return nil, vpC21CertErr
	}
	return &tls.Config{Certificates: []tls.Certificate{vpC21Cert}}, nil
}

// ---- fake network ----

type vpC21Rec struct {
	conn   int
	addr   string
	tls    bool
	sni    string
	method string
	target string
	host   string
	id     int
	body   string
}

type vpC21Answer struct {
	status   int
	location string
	close    bool
	dropOnce bool // the first arrival of this request is read and the connection closed without an answer (a retryable fault)
}

type vpC21Net struct {
	mu      sync.Mutex
	answers map[int]vpC21Answer
	recs    []vpC21Rec
	dials   []string
	cls     []*vpC21Conn // client ends (for byte counts)
	srv     []*vpC21Conn
	wg      sync.WaitGroup
	garbage int
}

var vpC21IDRe = regexp.MustCompile(`/r(\d+)`)

type vpC21PeekConn struct {
	net.Conn
	br *bufio.Reader
}

func (p *vpC21PeekConn) Read(b []byte) (int, error) { return p.br.Read(b) }

func (n *vpC21Net) dial(addr string) (net.Conn, error) {
	cl, sv := vpC21Pipe()
	n.mu.Lock()
	id := len(n.dials)
	n.dials = append(n.dials, addr)
	n.cls = append(n.cls, cl)
	n.srv = append(n.srv, sv)
	n.mu.Unlock()
	n.wg.Add(1)
	go n.serve(sv, addr, id)
	return cl, nil
}

// bytesWritten is the number of raw bytes the client side has written to any connection so far.
func (n *vpC21Net) bytesWritten() int64 {
	n.mu.Lock()
	defer n.mu.Unlock()
	var t int64
	for _, c := range n.cls {
		c.w.mu.Lock()
		t += c.w.total
		c.w.mu.Unlock()
	}
	return t
}

func (n *vpC21Net) serve(raw *vpC21Conn, addr string, connID int) {
	defer n.wg.Done()
	defer raw.Close()
	br := bufio.NewReader(raw)
	first, err := br.Peek(1)
	if err != nil {
		return
	}
	var rw net.Conn = &vpC21PeekConn{Conn: raw, br: br}
	isTLS, sni := false, ""
	if first[0] == 0x16 {
		cfg, err := vpC21ServerTLS()
		if err != nil {
			return
		}
		tc := tls.Server(rw, cfg)
		raw.SetReadDeadline(time.Now().Add(30 * time.Second))
		if err := tc.Handshake(); err != nil {
			n.mu.Lock()
			n.garbage++
			n.mu.Unlock()
			return
		}
		raw.SetReadDeadline(time.Time{})
		isTLS, sni = true, tc.ConnectionState().ServerName
		rw = tc
		br = bufio.NewReader(tc)
	}
	for {
		req, err := http.ReadRequest(br)
		if err != nil {
			if err != io.EOF && !errors.Is(err, net.ErrClosed) {
				n.mu.Lock()
				n.garbage++
				n.mu.Unlock()
			}
			return
		}
		reqBody, _ := io.ReadAll(io.LimitReader(req.Body, 1<<20))
		io.Copy(io.Discard, req.Body)
		rec := vpC21Rec{conn: connID, addr: addr, tls: isTLS, sni: sni, method: req.Method, target: req.RequestURI, host: req.Host, id: -1, body: string(reqBody)}
		if m := vpC21IDRe.FindStringSubmatch(req.RequestURI); m != nil {
			rec.id, _ = strconv.Atoi(m[1])
		}
		n.mu.Lock()
		n.recs = append(n.recs, rec)
		ans, ok := n.answers[rec.id]
		if ok && ans.dropOnce {
			ans.dropOnce = false
			n.answers[rec.id] = ans
			n.mu.Unlock()
			return
		}
		n.mu.Unlock()
		if !ok {
			ans = vpC21Answer{status: 200}
		}
		var sb strings.Builder
		fmt.Fprintf(&sb, "HTTP/1.1 %d vp\r\n", ans.status)
		if ans.location != "" {
			fmt.Fprintf(&sb, "Location: %s\r\n", ans.location)
		}
		if ans.close {
			sb.WriteString("Connection: close\r\n")
		}
		body := ""
		if req.Method != "HEAD" {
			body = "ok" + strconv.Itoa(rec.id)
		}
		fmt.Fprintf(&sb, "Content-Length: %d\r\n\r\n%s", len("ok"+strconv.Itoa(rec.id)), body)
		if _, err := rw.Write([]byte(sb.String())); err != nil || ans.close {
			if tc, ok := rw.(*tls.Conn); ok && err == nil {
				tc.CloseWrite()
			}
			return
		}
	}
}

func (n *vpC21Net) shutdown() {
	n.mu.Lock()
	srv := append([]*vpC21Conn(nil), n.srv...)
	n.mu.Unlock()
	for _, c := range srv {
		c.Close()
	}
	n.wg.Wait()
}

// ---- case model ----

type vpC21Target struct {
	scheme string // as written in the URL ("http", "HTTPS", ...)
	host   string // as written, may be upper case, may be an IP literal
	port   string // "" or ":NNN"
}

func (t vpC21Target) https() bool { return strings.EqualFold(t.scheme, "https") }

func (t vpC21Target) addr() string {
	p := t.port
	if p == "" {
		p = ":80"
		if t.https() {
			p = ":443"
		}
	}
	return strings.ToLower(t.host) + p
}

func (t vpC21Target) url(id int) string {
	return t.scheme + "://" + t.host + t.port + "/r" + strconv.Itoa(id)
}

type vpC21Hop struct {
	form   int // 0 absolute, 1 scheme-relative, 2 host-relative, 3-6 path-relative (no leading slash, ./, ../, query only)
	target vpC21Target
	status int
	close  bool
}

type vpC21Op struct {
	target vpC21Target
	api    int // 0 Do, 1 DoTimeout, 2 DoDeadline, 3 DoRedirects, 4 Get, 5 GetTimeout, 6 Post
	form   int // 0 SetRequestURI(full URL), 1 Header.SetHost+SetRequestURI(path)+URI().SetScheme
	method string
	hops   []vpC21Hop
	close  bool
	flip   bool // Client / HostClient, Do / DoTimeout / DoDeadline: the first attempt is dropped by the peer and the retry callback changes the request's scheme before the next attempt
	resend bool // Do / DoTimeout / DoDeadline on Client or HostClient: the request that was just sent is duplicated with Request.CopyTo and the copy is sent as well (retry / mirroring)
}

func (o vpC21Op) follows() bool { return o.api >= 3 }

type vpC21Case struct {
	kind         int // 0 Client, 1 HostClient, 2 LBClient
	writeTimeout bool
	hcTarget     vpC21Target // HostClient: Addr and IsTLS
	lbTLS        []bool      // LBClient: IsTLS of each member
	ops          []vpC21Op
}

var vpC21Hosts = []string{"a.test", "a.test", "b.test", "A.test", "127.0.0.1", "[::1]"}
var vpC21Ports = []string{"", "", "", ":80", ":443", ":8443"}
var vpC21Schemes = []string{"http", "https", "http", "https", "HTTPS", "Http", "hTTps"}

func vpC21GenTarget(t *rapid.T, label string) vpC21Target {
	return vpC21Target{
		scheme: rapid.SampledFrom(vpC21Schemes).Draw(t, label+"scheme"),
		host:   rapid.SampledFrom(vpC21Hosts).Draw(t, label+"host"),
		port:   rapid.SampledFrom(vpC21Ports).Draw(t, label+"port"),
	}
}

func vpC21GenCase(t *rapid.T) *vpC21Case {
	c := &vpC21Case{}
	c.kind = rapid.SampledFrom([]int{0, 0, 0, 1, 1, 2}).Draw(t, "kind")
	c.writeTimeout = rapid.Bool().Draw(t, "writeTimeout")
	switch c.kind {
	case 1:
		c.hcTarget = vpC21GenTarget(t, "hc")
		c.hcTarget.scheme = strings.ToLower(c.hcTarget.scheme)
	case 2:
		c.hcTarget = vpC21GenTarget(t, "lb")
		n := rapid.IntRange(2, 4).Draw(t, "lbMembers")
		for i := 0; i < n; i++ {
			c.lbTLS = append(c.lbTLS, rapid.Bool().Draw(t, "lbTLS"))
		}
	}
	nops := rapid.IntRange(2, 10).Draw(t, "nops")
	for i := 0; i < nops; i++ {
		var o vpC21Op
		o.target = vpC21GenTarget(t, "op")
		if rapid.IntRange(0, 2).Draw(t, "sameName") != 0 && i > 0 {
			// same host name as an earlier op, possibly with the other scheme: the interesting class
			o.target.host = c.ops[rapid.IntRange(0, i-1).Draw(t, "earlier")].target.host
		}
		switch c.kind {
		case 0:
			o.api = rapid.IntRange(0, 6).Draw(t, "api")
		case 1:
			o.api = rapid.SampledFrom([]int{0, 1, 2, 3, 4, 5, 6}).Draw(t, "api")
		default:
			o.api = rapid.IntRange(0, 2).Draw(t, "api")
		}
		o.method = "GET"
		if o.api <= 3 {
			o.method = rapid.SampledFrom([]string{"GET", "POST", "HEAD", "PUT"}).Draw(t, "method")
			o.form = rapid.SampledFrom([]int{0, 0, 1}).Draw(t, "form")
		}
		if o.api == 6 {
			o.method = "POST"
		}
		if o.follows() {
			nh := rapid.SampledFrom([]int{0, 1, 1, 2, 3}).Draw(t, "nhops")
			for j := 0; j < nh; j++ {
				h := vpC21Hop{form: rapid.SampledFrom([]int{0, 0, 0, 1, 2, 3, 3, 4, 5, 6}).Draw(t, "hopform")}
				h.target = vpC21GenTarget(t, "hop")
				if rapid.Bool().Draw(t, "hopSameHost") {
					h.target.host = o.target.host
				}
				h.status = rapid.SampledFrom([]int{301, 302, 307, 308}).Draw(t, "hopstatus")
				h.close = rapid.IntRange(0, 3).Draw(t, "hopclose") == 0
				o.hops = append(o.hops, h)
			}
		}
		o.close = rapid.IntRange(0, 4).Draw(t, "opclose") == 0
		if o.api <= 2 && c.kind != 2 {
			o.resend = rapid.IntRange(0, 3).Draw(t, "resend") == 0
			if !o.resend {
				o.flip = rapid.IntRange(0, 4).Draw(t, "flip") == 0
			}
		}
		c.ops = append(c.ops, o)
	}
	return c
}

func (c *vpC21Case) String() string {
	var sb strings.Builder
	fmt.Fprintf(&sb, "kind=%d wt=%v", c.kind, c.writeTimeout)
	if c.kind == 1 {
		fmt.Fprintf(&sb, " hostclient{Addr=%s IsTLS=%v}", c.hcTarget.addr(), c.hcTarget.https())
	}
	if c.kind == 2 {
		fmt.Fprintf(&sb, " lb{Addr=%s IsTLS=%v}", c.hcTarget.host+c.hcTarget.port, c.lbTLS)
	}
	for _, o := range c.ops {
		fmt.Fprintf(&sb, " | api%d/%d %s %s://%s%s", o.api, o.form, o.method, o.target.scheme, o.target.host, o.target.port)
		if o.resend {
			sb.WriteString(" +copy-resent")
		}
		if o.flip {
			sb.WriteString(" +scheme-changed-before-retry")
		}
		for _, h := range o.hops {
			fmt.Fprintf(&sb, " ->%d(f%d)%s://%s%s", h.status, h.form, h.target.scheme, h.target.host, h.target.port)
		}
	}
	return sb.String()
}

type vpC21Stats struct {
	bothSchemesSameName bool
	crossSchemeRedirect bool
	relativePathRedirect bool
	refusals            int
	tlsReqs, plainReqs  int
	reused              int
	clientErrs          int
	resent              int
	flips               int
}

type vpC21Doer interface {
	Do(req *Request, resp *Response) error
	DoTimeout(req *Request, resp *Response, d time.Duration) error
	DoDeadline(req *Request, resp *Response, d time.Time) error
}

// vpC21Exec runs a case; returns "" or a violation description.
func vpC21Exec(c *vpC21Case) (string, vpC21Stats) {
	var st vpC21Stats
	nw := &vpC21Net{answers: map[int]vpC21Answer{}}
	defer nw.shutdown()
	clientTLS := &tls.Config{InsecureSkipVerify: true}
	wt := time.Duration(0)
	if c.writeTimeout {
		wt = 30 * time.Second
	}
	var cl *Client
	var hcs []*HostClient
	var lb *LBClient
	// retry callback of the "flip" operations: while flipTo is set, a failed attempt is retried with the request's
	// scheme changed (an application-level fallback); otherwise it behaves like the default (idempotent methods only)
	var flipTo atomic.Value
	flipTo.Store("")
	retryCB := func(req *Request, attempts int, err error) (bool, bool) {
		if sch, _ := flipTo.Load().(string); sch != "" {
			req.URI().SetScheme(sch)
			return false, true
		}
		return false, req.Header.IsGet() || req.Header.IsHead() || req.Header.IsPut()
	}
	switch c.kind {
	case 0:
		cl = &Client{Dial: nw.dial, TLSConfig: clientTLS, ReadTimeout: 30 * time.Second, WriteTimeout: wt, MaxIdleConnDuration: time.Second, RetryIfErr: retryCB}
		defer cl.CloseIdleConnections()
	case 1:
		hc := &HostClient{Addr: c.hcTarget.host + c.hcTarget.port, IsTLS: c.hcTarget.https(), Dial: nw.dial, TLSConfig: clientTLS, RetryIfErr: retryCB,
			ReadTimeout: 30 * time.Second, WriteTimeout: wt, MaxIdleConnDuration: time.Second}
		hcs = append(hcs, hc)
		defer hc.CloseIdleConnections()
	default:
		lb = &LBClient{Timeout: 30 * time.Second}
		for _, isTLS := range c.lbTLS {
			hc := &HostClient{Addr: c.hcTarget.host + c.hcTarget.port, IsTLS: isTLS, Dial: nw.dial, TLSConfig: clientTLS,
				ReadTimeout: 30 * time.Second, WriteTimeout: wt, MaxIdleConnDuration: time.Second}
			hcs = append(hcs, hc)
			lb.Clients = append(lb.Clients, hc)
			defer hc.CloseIdleConnections()
		}
	}
	// expected transport per id
	type exp struct {
		t      vpC21Target
		viaHop bool
	}
	table := map[int]exp{}
	nextID := 0
	seenScheme := map[string]map[bool]bool{}
	note := func(t vpC21Target) {
		h := strings.ToLower(t.host)
		if seenScheme[h] == nil {
			seenScheme[h] = map[bool]bool{}
		}
		seenScheme[h][t.https()] = true
		if len(seenScheme[h]) == 2 {
			st.bothSchemesSameName = true
		}
	}
	for oi, o := range c.ops {
		id0 := nextID
		nextID++
		table[id0] = exp{t: o.target}
		note(o.target)
		// build the redirect chain: answers for id0, id0+1, ...
		cur := o.target
		curID := id0
		chain := []int{id0}
		for _, h := range o.hops {
			nid := nextID
			nextID++
			var eff vpC21Target
			var loc string
			switch h.form {
			case 0:
				eff = h.target
				loc = eff.url(nid)
			case 1:
				eff = vpC21Target{scheme: cur.scheme, host: h.target.host, port: h.target.port}
				loc = "//" + h.target.host + h.target.port + "/r" + strconv.Itoa(nid)
			case 2:
				eff = cur
				loc = "/r" + strconv.Itoa(nid)
			default:
				// a reference relative to the current path: scheme, host and port stay what they are
				eff = cur
				loc = []string{"r", "./r", "../r", "r"}[h.form-3] + strconv.Itoa(nid)
				if h.form == 6 {
					loc += "?q=1#frag"
				}
				st.relativePathRedirect = true
			}
			if eff.https() != cur.https() {
				st.crossSchemeRedirect = true
			}
			nw.mu.Lock()
			nw.answers[curID] = vpC21Answer{status: h.status, location: loc, close: h.close}
			nw.mu.Unlock()
			table[nid] = exp{t: eff, viaHop: true}
			note(eff)
			cur, curID = eff, nid
			chain = append(chain, nid)
		}
		nw.mu.Lock()
		nw.answers[curID] = vpC21Answer{status: 200, close: o.close, dropOnce: o.flip}
		nw.mu.Unlock()
		flipped := "https"
		if o.target.https() {
			flipped = "http"
		}
		if o.flip {
			flipTo.Store(flipped)
		}

		bytesBefore := nw.bytesWritten()
		nw.mu.Lock()
		recsBefore := len(nw.recs)
		nw.mu.Unlock()

		// ---- perform the operation ----
		url := o.target.url(id0)
		var err error
		status := 0
		req := AcquireRequest()
		resp := AcquireResponse()
		if o.api <= 3 {
			if o.form == 0 {
				req.SetRequestURI(url)
			} else {
				req.Header.SetHost(o.target.host + o.target.port)
				req.SetRequestURI("/r" + strconv.Itoa(id0))
				req.URI().SetScheme(o.target.scheme)
			}
			req.Header.SetMethod(o.method)
			if o.method == "POST" || o.method == "PUT" {
				req.SetBodyString("vp-c21-body")
			}
		}
		var doer vpC21Doer
		switch c.kind {
		case 0:
			doer = cl
		case 1:
			doer = hcs[0]
		default:
			doer = lb
		}
		switch o.api {
		case 0:
			err = doer.Do(req, resp)
			status = resp.StatusCode()
		case 1:
			err = doer.DoTimeout(req, resp, 30*time.Second)
			status = resp.StatusCode()
		case 2:
			err = doer.DoDeadline(req, resp, time.Now().Add(30*time.Second))
			status = resp.StatusCode()
		case 3:
			if c.kind == 0 {
				err = cl.DoRedirects(req, resp, 5)
			} else {
				err = hcs[0].DoRedirects(req, resp, 5)
			}
			status = resp.StatusCode()
		case 4:
			if c.kind == 0 {
				status, _, err = cl.Get(nil, url)
			} else {
				status, _, err = hcs[0].Get(nil, url)
			}
		case 5:
			if c.kind == 0 {
				status, _, err = cl.GetTimeout(nil, url, 30*time.Second)
			} else {
				status, _, err = hcs[0].GetTimeout(nil, url, 30*time.Second)
			}
		default:
			if c.kind == 0 {
				status, _, err = cl.Post(nil, url, nil)
			} else {
				status, _, err = hcs[0].Post(nil, url, nil)
			}
		}
		flipTo.Store("")
		if o.resend {
			// the copy of a request is the same request: same URL, same scheme
			req2 := AcquireRequest()
			resp2 := AcquireResponse()
			req.CopyTo(req2)
			doer.Do(req2, resp2) //nolint:errcheck
			ReleaseRequest(req2)
			ReleaseResponse(resp2)
			st.resent++
		}
		ReleaseRequest(req)
		ReleaseResponse(resp)

		nw.mu.Lock()
		newRecs := append([]vpC21Rec(nil), nw.recs[recsBefore:]...)
		nw.mu.Unlock()
		where := fmt.Sprintf("op %d (%s %s, api %d)", oi, o.method, url, o.api)
		if c.kind == 0 && err != nil {
			st.clientErrs++
			vpNote("C21: example of a failing Client call on the fault-free fake network: %s: %v", where, err)
		}

		if o.flip {
			// the first attempt travelled under the original scheme; once the callback has changed the scheme, the
			// HostClient that holds the request (chosen for, or configured with, the original scheme) has to refuse
			// it: any further transmission went out on a connection of the wrong kind
			st.flips++
			for k, r := range newRecs {
				if r.id != id0 {
					return fmt.Sprintf("%s: the fake network saw a request with an unexpected id %d", where, r.id), st
				}
				if k == 0 {
					if r.tls != o.target.https() {
						return fmt.Sprintf("%s: first attempt of a %s request was written to a connection with tls=%v", where, o.target.scheme, r.tls), st
					}
					continue
				}
				return fmt.Sprintf("%s: after the first attempt failed the retry callback changed the request's scheme to %s; the request was then written again to a connection with tls=%v dialled for %q (the HostClient holding it serves %s only and has to refuse it)", where, flipped, r.tls, r.addr, o.target.scheme), st
			}
			continue
		}
		// ---- oracle 1: every observed request travelled on the transport its URL demands ----
		for _, r := range newRecs {
			e, ok := table[r.id]
			if !ok {
				return fmt.Sprintf("%s: the fake network saw a request without a known id: %s %s on conn dialled %q", where, r.method, r.target, r.addr), st
			}
			if e.t.https() && !r.tls {
				return fmt.Sprintf("%s: request /r%d has scheme https but was written in PLAINTEXT to the connection dialled for %q", where, r.id, r.addr), st
			}
			if !e.t.https() && r.tls {
				return fmt.Sprintf("%s: request /r%d has scheme http but was written to a TLS connection (dialled %q)", where, r.id, r.addr), st
			}
			if c.kind == 0 {
				if r.addr != e.t.addr() {
					return fmt.Sprintf("%s: request /r%d for %s://%s%s was written to a connection dialled for %q (want %q)", where, r.id, e.t.scheme, e.t.host, e.t.port, r.addr, e.t.addr()), st
				}
				if r.tls && !strings.ContainsAny(e.t.host, ":[") && net.ParseIP(e.t.host) == nil && r.sni != strings.ToLower(e.t.host) {
					return fmt.Sprintf("%s: request /r%d for host %q went over a TLS connection negotiated for server name %q", where, r.id, e.t.host, r.sni), st
				}
			}
			if r.tls {
				st.tlsReqs++
			} else {
				st.plainReqs++
			}
		}
		// ---- oracle 2: HostClient / LBClient members refuse the other scheme without writing ----
		switch c.kind {
		case 1:
			hcTLS := c.hcTarget.https()
			// walk the chain as far as the HostClient may go
			expectRefusal := false
			allowed := 0
			for i, id := range chain {
				if table[id].t.https() != hcTLS {
					expectRefusal = true
					break
				}
				allowed = i + 1
				if !o.follows() {
					break
				}
			}
			for _, r := range newRecs {
				ok := false
				for _, id := range chain[:allowed] {
					if r.id == id {
						ok = true
					}
				}
				if !ok {
					return fmt.Sprintf("%s: HostClient{IsTLS=%v} transmitted request /r%d whose scheme is %s", where, hcTLS, r.id, table[r.id].t.scheme), st
				}
			}
			if expectRefusal {
				st.refusals++
				if !errors.Is(err, ErrHostClientRedirectToDifferentScheme) {
					return fmt.Sprintf("%s: HostClient{IsTLS=%v} got a request/redirect with the other scheme and returned %v (status %d), want ErrHostClientRedirectToDifferentScheme", where, hcTLS, err, status), st
				}
				if allowed == 0 && nw.bytesWritten() != bytesBefore {
					return fmt.Sprintf("%s: HostClient{IsTLS=%v} refused the request but wrote %d bytes", where, hcTLS, nw.bytesWritten()-bytesBefore), st
				}
			}
		case 2:
			if errors.Is(err, ErrHostClientRedirectToDifferentScheme) {
				st.refusals++
				if nw.bytesWritten() != bytesBefore {
					return fmt.Sprintf("%s: LBClient member refused the request but %d bytes were written", where, nw.bytesWritten()-bytesBefore), st
				}
			} else if err == nil && len(newRecs) != 1 {
				return fmt.Sprintf("%s: LBClient call succeeded but the network saw %d requests", where, len(newRecs)), st
			}
		}
	}
	// connection reuse statistics
	nw.mu.Lock()
	perConn := map[int]int{}
	for _, r := range nw.recs {
		perConn[r.conn]++
	}
	for _, k := range perConn {
		if k > 1 {
			st.reused += k - 1
		}
	}
	nw.mu.Unlock()
	return "", st
}

func TestVP_C21_SchemeTransport(t *testing.T) {
	if _, err := vpC21ServerTLS(); err != nil {
		fmt.Fprintln(os.Stderr, "VP-INCONCLUSIVE: cannot create the throw-away certificate:", err)
		t.Fatalf("VP-INCONCLUSIVE: %v", err)
	}
	rapid.Check(t, func(t *rapid.T) {
		c := vpC21GenCase(t)
		msg, st := vpC21Exec(c)
		kind := [...]string{"Client", "HostClient", "LBClient"}[c.kind]
		cls := kind
		nontrivial := false
		switch c.kind {
		case 0:
			if st.bothSchemesSameName {
				cls += "/both-schemes-same-name"
				nontrivial = st.tlsReqs > 0 && st.plainReqs > 0
			}
			if st.crossSchemeRedirect {
				cls += "/cross-scheme-redirect"
			}
		default:
			if st.refusals > 0 {
				cls += "/refusal"
				nontrivial = true
			}
			if st.crossSchemeRedirect {
				cls += "/cross-scheme-redirect"
			}
		}
		if st.relativePathRedirect {
			vpExtra("c21_cases_with_path_relative_redirect", 1)
		}
		vpCase(cls, nontrivial, c.String(), func() string {
			return fmt.Sprintf("%s => tls=%d plain=%d refusals=%d reused=%d", c.String(), st.tlsReqs, st.plainReqs, st.refusals, st.reused)
		})
		vpExtra("c21_requests_inside_tls", int64(st.tlsReqs))
		vpExtra("c21_requests_plaintext", int64(st.plainReqs))
		vpExtra("c21_requests_on_reused_conns", int64(st.reused))
		vpExtra("c21_refusals", int64(st.refusals))
		vpExtra("c21_copied_requests_resent", int64(st.resent))
		vpExtra("c21_scheme_changed_before_retry", int64(st.flips))
		vpExtra("c21_client_call_errors", int64(st.clientErrs))
		if msg != "" {
			t.Fatalf("C21: %s\ncase: %s", msg, c.String())
		}
	})
}
