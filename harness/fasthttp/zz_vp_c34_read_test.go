package fasthttp

// C34 (read side) — fasthttp's chunked readers (readBodyChunked, and the requestStream reader used
// for StreamRequestBody / StreamResponseBody) return the same bytes for every read split of the
// encoded form. The encoder here is written from RFC 9112 §7.1 (not fasthttp's writeChunk); net/http's
// chunked reader cross-checks every encoded form before it is used.

import (
	"bufio"
	"bytes"
	"fmt"
	"io"
	"net/http/httputil"
	"strings"
	"sync"
	"testing"

	"github.com/valyala/bytebufferpool"
	"pgregory.net/rapid"
)

type vpC34Enc struct {
	body      []byte
	chunks    []int    // chunk sizes, each >= 1, sum == len(body)
	sizeLines []string // rendering of every chunk-size line incl. the last-chunk line (no CRLF)
	trailer   string   // trailer section without the final empty line ("" or "Name: v\r\n")
	canonical bool     // minimal lower-case hex, no extensions, no trailer: what fasthttp itself emits
}

func (e *vpC34Enc) encode() []byte {
	var b bytes.Buffer
	off := 0
	for i, n := range e.chunks {
		b.WriteString(e.sizeLines[i])
		b.WriteString("\r\n")
		b.Write(e.body[off : off+n])
		b.WriteString("\r\n")
		off += n
	}
	b.WriteString(e.sizeLines[len(e.chunks)])
	b.WriteString("\r\n")
	b.WriteString(e.trailer)
	b.WriteString("\r\n")
	return b.Bytes()
}

// vpC34BodyOffsetOfLastChunkLine: number of encoded bytes up to and including the CRLF of the
// last-chunk line (a form cut at or after this point already carries the whole body).
func (e *vpC34Enc) lastLineEnd() int {
	n := 0
	for i, c := range e.chunks {
		n += len(e.sizeLines[i]) + 2 + c + 2
	}
	return n + len(e.sizeLines[len(e.chunks)]) + 2
}

// isChunkBoundary: cut is 0 or lies right behind the CRLF that ends a chunk.
func (e *vpC34Enc) isChunkBoundary(cut int) bool {
	n := 0
	if cut == 0 {
		return true
	}
	for i, c := range e.chunks {
		n += len(e.sizeLines[i]) + 2 + c + 2
		if n == cut {
			return true
		}
	}
	return false
}

const vpC34KeyStreamEOF = "C34/request-stream-clean-eof-at-chunk-boundary"

var (
	vpC34StreamEOFOnce sync.Once
	vpC34StreamEOFIs   bool
)

// vpC34StreamEOFPresent: "3\r\nabc\r\n" followed by end of input, read through requestStream.
func vpC34StreamEOFPresent() bool {
	vpC34StreamEOFOnce.Do(func() {
		out := vpC34ReadVia(vpC34PathStreamFn, []byte("3\r\nabc\r\n"), nil, false, 4096, []int{64})
		vpC34StreamEOFIs = out.ok
		if out.ok {
			// the same through a server with StreamRequestBody
			var hb []byte
			var herr error
			called := false
			srv := &Server{StreamRequestBody: true, Logger: vpC34NopLogger{}, Handler: func(ctx *RequestCtx) {
				called = true
				hb, herr = io.ReadAll(ctx.RequestBodyStream())
				hb = append([]byte(nil), hb...)
			}}
			conn := &vpC34Conn{r: bytes.NewReader([]byte("POST /u HTTP/1.1\r\nHost: vp\r\nTransfer-Encoding: chunked\r\n\r\n3\r\nabc\r\n")), sink: &vpC34Sink{budget: -1}}
			srv.ServeConn(conn) //nolint:errcheck
			vpProbe(vpC34KeyStreamEOF, true, fmt.Sprintf("requestStream over \"3\\r\\nabc\\r\\n\"+EOF returns %q and then io.EOF (a complete body) although no last-chunk was received; Server{StreamRequestBody} handler called=%v: io.ReadAll(ctx.RequestBodyStream()) = %q, %v", out.body, called, hb, herr))
		} else {
			vpProbe(vpC34KeyStreamEOF, false, fmt.Sprintf("requestStream now fails with %v when the input ends at a chunk boundary", out.err))
		}
	})
	return vpC34StreamEOFIs
}

var vpC34Confusers = []string{"\r\n", "0\r\n\r\n", "\r\n0\r\n\r\n", "5\r\nhello\r\n", "\r", "\n", "ffffffffffffffff\r\n", ";ext\r\n", "GET / HTTP/1.1\r\n\r\n"}

func vpC34GenReadBody(t *rapid.T, maxLen int) []byte {
	n := vpC34GenLen(t, maxLen)
	seed := rapid.IntRange(0, 255).Draw(t, "bseed")
	b := vpC34Data(n, seed)
	switch rapid.IntRange(0, 3).Draw(t, "bodyShape") {
	case 0: // sprinkle framing look-alikes
		k := rapid.IntRange(1, 6).Draw(t, "nConf")
		for i := 0; i < k && n > 0; i++ {
			c := rapid.SampledFrom(vpC34Confusers).Draw(t, "conf")
			at := rapid.IntRange(0, n-1).Draw(t, "confAt")
			copy(b[at:], c)
		}
	case 1: // only CR / LF / digits
		for i := range b {
			b[i] = "\r\n0a1\r\n;"[(int(b[i])+i)%8]
		}
	}
	return b
}

func vpC34HexLine(t *rapid.T, n int, canonical bool) string {
	s := fmt.Sprintf("%x", n)
	if canonical {
		return s
	}
	switch rapid.IntRange(0, 5).Draw(t, "hexStyle") {
	case 0:
		s = strings.ToUpper(s)
	case 1: // mixed case
		bs := []byte(s)
		for i := range bs {
			if i%2 == 0 {
				bs[i] = strings.ToUpper(string(bs[i]))[0]
			}
		}
		s = string(bs)
	case 2: // leading zeros, at most 15 digits in total
		z := rapid.IntRange(1, 15-len(s)).Draw(t, "zeros")
		s = strings.Repeat("0", z) + s
	}
	if rapid.IntRange(0, 3).Draw(t, "ext") == 0 {
		s += rapid.SampledFrom([]string{";a=b", ";x", ";name=\"q v\"", ";a=b;c=d", ";5\\r"}).Draw(t, "extv")
	}
	return s
}

func vpC34GenEnc(t *rapid.T, maxLen int) *vpC34Enc {
	e := &vpC34Enc{}
	e.body = vpC34GenReadBody(t, maxLen)
	e.canonical = rapid.IntRange(0, 2).Draw(t, "canonical") != 0
	n := len(e.body)
	switch rapid.IntRange(0, 4).Draw(t, "chunkShape") {
	case 0: // one chunk
		if n > 0 {
			e.chunks = []int{n}
		}
	case 1: // single bytes (bounded)
		if n > 300 {
			n = 300
			e.body = e.body[:n]
		}
		for i := 0; i < n; i++ {
			e.chunks = append(e.chunks, 1)
		}
	case 2: // around hex-digit and buffer boundaries
		for left := n; left > 0; {
			c := rapid.SampledFrom([]int{1, 9, 10, 15, 16, 17, 255, 256, 257, 4095, 4096, 4097}).Draw(t, "csz")
			if c = min(c, left); len(e.chunks) >= 150 {
				c = left // keep the number of draws per case bounded
			}
			e.chunks = append(e.chunks, c)
			left -= c
		}
	default:
		hi := rapid.SampledFrom([]int{4, 64, 1000, 9000}).Draw(t, "chunkHi")
		for left := n; left > 0; {
			c := min(rapid.IntRange(1, hi).Draw(t, "csz"), left)
			if len(e.chunks) >= 150 {
				c = left
			}
			e.chunks = append(e.chunks, c)
			left -= c
		}
	}
	for _, c := range e.chunks {
		e.sizeLines = append(e.sizeLines, vpC34HexLine(t, c, e.canonical))
	}
	e.sizeLines = append(e.sizeLines, vpC34HexLine(t, 0, e.canonical))
	if !e.canonical && rapid.IntRange(0, 3).Draw(t, "trailer") == 0 {
		e.trailer = rapid.SampledFrom([]string{"X-Vp-T: v\r\n", "X-Vp-A: 1\r\nX-Vp-B: 2\r\n"}).Draw(t, "trailerV")
	}
	return e
}

// vpC34SplitReader delivers data in pieces of planned sizes (like a net.Conn would).
type vpC34SplitReader struct {
	data        []byte
	plan        []int
	off, idx    int
	eofWithData bool
}

func (r *vpC34SplitReader) Read(p []byte) (int, error) {
	if r.off == len(r.data) {
		return 0, io.EOF
	}
	if len(p) == 0 {
		return 0, nil
	}
	size := len(p)
	if r.idx < len(r.plan) {
		size = max(1, r.plan[r.idx])
	}
	r.idx++
	n := copy(p, r.data[r.off:min(len(r.data), r.off+size)])
	r.off += n
	if r.off == len(r.data) && r.eofWithData {
		return n, io.EOF
	}
	return n, nil
}

// vpC34GenSplit produces a delivery plan for wire; interesting cut points (just before/after every
// CR and LF of the framing) are favoured.
func vpC34GenSplit(t *rapid.T, wire []byte) []int {
	n := len(wire)
	switch rapid.IntRange(0, 5).Draw(t, "splitShape") {
	case 0: // everything at once
		return nil
	case 1: // byte by byte (bounded prefix, then the rest)
		p := make([]int, min(n, 600))
		for i := range p {
			p[i] = 1
		}
		return p
	case 2: // cut at CR/LF neighbourhoods
		var cuts []int
		for i := 0; i < n && len(cuts) < 64; i++ {
			if (wire[i] == '\r' || wire[i] == '\n') && rapid.IntRange(0, 2).Draw(t, "cutHere") == 0 {
				cuts = append(cuts, i+rapid.IntRange(0, 1).Draw(t, "cutAfter"))
			}
		}
		var plan []int
		prev := 0
		for _, c := range cuts {
			if c > prev {
				plan = append(plan, c-prev)
				prev = c
			}
		}
		return plan
	default:
		hi := rapid.SampledFrom([]int{2, 7, 40, 700, 5000}).Draw(t, "splitHi")
		var plan []int
		for got := 0; got < n && len(plan) < 400; {
			s := rapid.IntRange(1, hi).Draw(t, "piece")
			plan = append(plan, s)
			got += s
		}
		return plan
	}
}

func vpC34GenConsumer(t *rapid.T) []int {
	switch rapid.IntRange(0, 3).Draw(t, "consShape") {
	case 0:
		return []int{1 << 16}
	case 1:
		return []int{1}
	case 2:
		return []int{rapid.SampledFrom([]int{2, 3, 7, 512, 4096, 8192}).Draw(t, "consSz")}
	default:
		var p []int
		k := rapid.IntRange(1, 12).Draw(t, "consN")
		for i := 0; i < k; i++ {
			p = append(p, rapid.IntRange(1, 5000).Draw(t, "consP"))
		}
		return p
	}
}

// vpC34Drain reads r to the end with the consumer's buffer sizes (cycled).
func vpC34Drain(r io.Reader, cons []int) ([]byte, error) {
	var out []byte
	idle := 0
	mx := 0
	for _, c := range cons {
		mx = max(mx, c)
	}
	scratch := make([]byte, mx)
	for i := 0; ; i++ {
		buf := scratch[:cons[i%len(cons)]]
		n, err := r.Read(buf)
		out = append(out, buf[:n]...)
		if err != nil {
			return out, err
		}
		if n == 0 {
			idle++
			if idle > 1000 {
				return out, fmt.Errorf("vpC34: reader made no progress in 1000 consecutive Reads")
			}
		} else {
			idle = 0
		}
	}
}

const (
	vpC34PathChunkedFn = iota // readBodyChunked + ReadTrailer, as Request.ContinueReadBody does
	vpC34PathStreamFn         // requestStream directly
	vpC34PathReqRead          // Request.Read
	vpC34PathReqStream        // Request header + ContinueReadBodyStream (server with StreamRequestBody)
	vpC34PathRespRead         // Response.Read
	vpC34PathRespStream       // Response.Read with StreamBody (client with StreamResponseBody)
	vpC34PathCount
)

var vpC34PathNames = [...]string{"readBodyChunked", "requestStream", "Request.Read", "Request.ContinueReadBodyStream", "Response.Read", "Response.Read+StreamBody"}

const (
	vpC34ReqHead  = "POST /u HTTP/1.1\r\nHost: vp\r\nTransfer-Encoding: chunked\r\n\r\n"
	vpC34RespHead = "HTTP/1.1 200 OK\r\nTransfer-Encoding: chunked\r\n\r\n"
)

type vpC34ReadOut struct {
	body    []byte
	ok      bool // the reader reported a complete body (nil error / io.EOF at the end of the stream)
	err     error
	rest    []byte // what is left in the connection behind the message (only meaningful when ok)
	restErr error
}

func vpC34WirePrefix(path int) string {
	switch path {
	case vpC34PathReqRead, vpC34PathReqStream:
		return vpC34ReqHead
	case vpC34PathRespRead, vpC34PathRespStream:
		return vpC34RespHead
	}
	return ""
}

// vpC34ReadVia pushes wire (head already included where the path needs one) through one of
// fasthttp's chunked readers.
func vpC34ReadVia(path int, wire []byte, split []int, eofWithData bool, bufSize int, cons []int) (out vpC34ReadOut) {
	src := &vpC34SplitReader{data: wire, plan: split, eofWithData: eofWithData}
	br := bufio.NewReaderSize(src, bufSize)
	finish := func() {
		if out.ok {
			out.rest, out.restErr = io.ReadAll(br)
		}
	}
	switch path {
	case vpC34PathChunkedFn:
		b, err := readBodyChunked(br, 0, nil)
		if err == nil {
			var h RequestHeader
			err = h.ReadTrailer(br)
		}
		out.body, out.err, out.ok = b, err, err == nil
		finish()
	case vpC34PathStreamFn:
		var h RequestHeader
		h.SetContentLength(-1)
		rs := acquireRequestStream(&bytebufferpool.ByteBuffer{}, br, &h)
		b, err := vpC34Drain(rs, cons)
		releaseRequestStream(rs)
		out.body, out.err, out.ok = b, err, err == io.EOF
		finish()
	case vpC34PathReqRead:
		var req Request
		err := req.Read(br)
		out.err, out.ok = err, err == nil
		if err == nil {
			out.body = append([]byte(nil), req.Body()...)
		}
		finish()
		req.Reset()
	case vpC34PathReqStream:
		var req Request
		err := req.Header.Read(br)
		if err == nil {
			err = req.ContinueReadBodyStream(br, 4<<20, false)
		}
		if err != nil {
			out.err = err
			return out
		}
		if req.BodyStream() == nil {
			out.err = fmt.Errorf("vpC34: no body stream installed")
			return out
		}
		b, err := vpC34Drain(req.BodyStream(), cons)
		out.body, out.err, out.ok = b, err, err == io.EOF
		finish()
		req.Reset()
	case vpC34PathRespRead:
		var resp Response
		err := resp.Read(br)
		out.err, out.ok = err, err == nil
		if err == nil {
			out.body = append([]byte(nil), resp.Body()...)
		}
		finish()
		resp.Reset()
	case vpC34PathRespStream:
		var resp Response
		resp.StreamBody = true
		err := resp.Read(br)
		if err != nil {
			out.err = err
			return out
		}
		if resp.BodyStream() == nil {
			out.err = fmt.Errorf("vpC34: no body stream installed")
			return out
		}
		b, err := vpC34Drain(resp.BodyStream(), cons)
		out.body, out.err, out.ok = b, err, err == io.EOF
		finish()
		resp.Reset()
	}
	return out
}

func vpC34NetHTTPChunked(enc []byte) ([]byte, error) {
	return io.ReadAll(httputil.NewChunkedReader(bytes.NewReader(enc)))
}

func vpC34BufSizes(path int) []int {
	if path == vpC34PathChunkedFn || path == vpC34PathStreamFn {
		return []int{16, 17, 32, 64, 512, 4096}
	}
	return []int{128, 256, 4096, 8192}
}

// TestVP_C34_ChunkedReadSplits: generated chunked forms, tails and delivery plans.
func TestVP_C34_ChunkedReadSplits(t *testing.T) {
	rapid.Check(t, func(t *rapid.T) {
		e := vpC34GenEnc(t, 12000)
		enc := e.encode()
		// oracle sanity: own decoder and net/http agree that enc carries e.body
		if got, complete, rest, bad := vpC34DecodeChunkedPrefix(enc); bad != "" || !complete || len(rest) != 0 || !bytes.Equal(got, e.body) {
			t.Fatalf("harness bug: own decoder rejects own encoding (%s complete=%v rest=%d)", bad, complete, len(rest))
		}
		if e.trailer == "" {
			if got, err := vpC34NetHTTPChunked(enc); err != nil || !bytes.Equal(got, e.body) {
				// net/http is stricter about some extension spellings; those forms are only used for split-independence
				if e.canonical {
					t.Fatalf("harness bug: net/http decodes the canonical encoding differently: %v", err)
				}
			}
		}
		path := rapid.IntRange(0, vpC34PathCount-1).Draw(t, "path")
		bufSize := rapid.SampledFrom(vpC34BufSizes(path)).Draw(t, "bufSize")
		if e.trailer != "" && bufSize < 128 {
			bufSize = 128 // a trailer section must fit the read buffer (documented small-buffer error otherwise)
		}
		tail := rapid.SampledFrom([]string{"", "", "GET /next HTTP/1.1\r\nHost: vp\r\n\r\n", "0\r\n\r\n", "\r\n", "HTTP/1.1 200 OK\r\nContent-Length: 0\r\n\r\n", "zz"}).Draw(t, "tail")
		wire := append([]byte(vpC34WirePrefix(path)), enc...)
		wire = append(wire, tail...)
		split := vpC34GenSplit(t, wire)
		cons := vpC34GenConsumer(t)
		eofWithData := rapid.Bool().Draw(t, "eofWithData")

		ref := vpC34ReadVia(path, wire, nil, false, bufSize, []int{1 << 16})
		got := vpC34ReadVia(path, wire, split, eofWithData, bufSize, cons)
		form := "canonical"
		if !e.canonical {
			form = "variant"
		}
		nt := len(e.body) > 0 && (len(split) >= 2 || len(e.chunks) >= 2)
		desc := func() string {
			return fmt.Sprintf("path=%s body=%d chunks=%s lines=%q trailer=%q tail=%q buf=%d split=%s cons=%s eofWithData=%v",
				vpC34PathNames[path], len(e.body), vpC34Short(e.chunks), vpC34ShortS(e.sizeLines), e.trailer, tail, bufSize, vpC34Short(split), vpC34Short(cons), eofWithData)
		}
		vpCase("read/"+vpC34PathNames[path]+"/"+form, nt, fmt.Sprintf("%d|%x|%v|%v|%d", path, enc, split, cons, bufSize), desc)
		fail := func(format string, a ...any) {
			t.Helper()
			t.Fatalf("C34 violated (chunked read): %s\n  %s\n  encoded (%d bytes): %s", fmt.Sprintf(format, a...), desc(), len(enc), vpC34Snip(enc))
		}
		if e.canonical {
			if !ref.ok {
				fail("a well-formed chunked body delivered in one piece is rejected: %v", ref.err)
			}
			if !got.ok {
				fail("a well-formed chunked body is rejected under this read split: %v", got.err)
			}
		}
		if ref.ok != got.ok {
			fail("outcome depends on the read split: one-piece delivery ok=%v (err %v), split delivery ok=%v (err %v)", ref.ok, ref.err, got.ok, got.err)
		}
		for _, o := range []struct {
			name string
			r    vpC34ReadOut
		}{{"one-piece", ref}, {"split", got}} {
			if !o.r.ok {
				if !bytes.HasPrefix(e.body, o.r.body) && (path == vpC34PathStreamFn || path == vpC34PathReqStream || path == vpC34PathRespStream) {
					fail("%s delivery: the stream handed out bytes that are not a prefix of the body before failing with %v", o.name, o.r.err)
				}
				continue
			}
			if !bytes.Equal(o.r.body, e.body) {
				fail("%s delivery: reader returned %d bytes, the encoded form carries %d (first difference at %d)", o.name, len(o.r.body), len(e.body), vpC34FirstDiff(o.r.body, e.body))
			}
			if o.r.restErr != nil || string(o.r.rest) != tail {
				fail("%s delivery: %q is left on the connection behind the message, want %q (err %v)", o.name, vpC34Snip(o.r.rest), tail, o.r.restErr)
			}
		}
	})
}

func vpC34ShortS(p []string) []string {
	if len(p) <= 8 {
		return p
	}
	return append(append([]string{}, p[:8]...), fmt.Sprintf("...(%d)", len(p)))
}

// TestVP_C34_ChunkedReadEverySplit: encoded forms of at most 64 bytes; EVERY single cut position and
// the all-single-bytes delivery are enumerated for the two reader functions, with a 16-byte and a
// 4096-byte read buffer. Truncations at every offset must never be reported as a complete body.
func TestVP_C34_ChunkedReadEverySplit(t *testing.T) {
	vpC34StreamEOFPresent()
	rapid.Check(t, func(t *rapid.T) {
		var e *vpC34Enc
		for {
			e = vpC34GenEnc(t, 40)
			e.trailer = ""
			if len(e.encode()) <= 64 {
				break
			}
			// shorten deterministically instead of rejecting
			e.body = e.body[:len(e.body)/2]
			e.chunks, e.sizeLines = nil, nil
			if len(e.body) > 0 {
				e.chunks = []int{len(e.body)}
				e.sizeLines = []string{fmt.Sprintf("%x", len(e.body))}
			}
			e.sizeLines = append(e.sizeLines, "0")
			e.canonical = true
			break
		}
		enc := e.encode()
		tail := rapid.SampledFrom([]string{"", "GET /n HTTP/1.1\r\n\r\n", "0\r\n\r\n"}).Draw(t, "tail")
		wire := append(append([]byte{}, enc...), tail...)
		cons := vpC34GenConsumer(t)
		desc := func() string {
			return fmt.Sprintf("lines=%q body=%q tail=%q cons=%s", e.sizeLines, e.body, tail, vpC34Short(cons))
		}
		runs := 0
		for _, path := range []int{vpC34PathChunkedFn, vpC34PathStreamFn} {
			for _, bufSize := range []int{16, 4096} {
				ref := vpC34ReadVia(path, wire, nil, false, bufSize, []int{1 << 16})
				if e.canonical && !ref.ok {
					t.Fatalf("C34 violated (chunked read): well-formed form rejected: %v\n  path=%s buf=%d %s", ref.err, vpC34PathNames[path], bufSize, desc())
				}
				plans := [][]int{make([]int, len(wire))}
				for i := range plans[0] {
					plans[0][i] = 1
				}
				for cut := 1; cut < len(wire); cut++ {
					plans = append(plans, []int{cut})
				}
				for _, plan := range plans {
					for _, ewd := range []bool{false, true} {
						got := vpC34ReadVia(path, wire, plan, ewd, bufSize, cons)
						runs++
						if got.ok != ref.ok {
							t.Fatalf("C34 violated (chunked read): outcome depends on the read split %v (eofWithData=%v): one-piece ok=%v err=%v, split ok=%v err=%v\n  path=%s buf=%d %s",
								vpC34Short(plan), ewd, ref.ok, ref.err, got.ok, got.err, vpC34PathNames[path], bufSize, desc())
						}
						if got.ok && (!bytes.Equal(got.body, e.body) || string(got.rest) != tail) {
							t.Fatalf("C34 violated (chunked read): split %v (eofWithData=%v) yields body %q rest %q, want %q / %q\n  path=%s buf=%d %s",
								vpC34Short(plan), ewd, got.body, got.rest, e.body, tail, vpC34PathNames[path], bufSize, desc())
						}
					}
				}
				// truncation at every offset before the last-chunk line is complete: never a success
				if ref.ok {
					for cut := 0; cut < e.lastLineEnd(); cut++ {
						if path == vpC34PathStreamFn && e.isChunkBoundary(cut) && vpKnownOpen(vpC34KeyStreamEOF) && vpC34StreamEOFPresent() {
							vpExclude(vpC34KeyStreamEOF)
							continue
						}
						got := vpC34ReadVia(path, enc[:cut], nil, false, bufSize, cons)
						runs++
						if got.ok {
							t.Fatalf("C34 violated (chunked read): the form cut after %d of %d bytes is reported as a complete body %q\n  path=%s buf=%d %s",
								cut, len(enc), got.body, vpC34PathNames[path], bufSize, desc())
						}
						if !bytes.HasPrefix(e.body, got.body) && path == vpC34PathStreamFn {
							t.Fatalf("C34 violated (chunked read): truncated form: stream handed out %q, not a prefix of %q", got.body, e.body)
						}
					}
				}
			}
		}
		form := "canonical"
		if !e.canonical {
			form = "variant"
		}
		vpCase("read/everySplit/"+form, len(e.body) > 0, fmt.Sprintf("%x|%s|%v", enc, tail, cons), desc)
		vpExtra("c34_read_split_runs", int64(runs))
	})
}

// TestVP_C34_FixedLengthStream: requestStream with a Content-Length (StreamRequestBody /
// StreamResponseBody with a body-size limit): exact bytes for every read split, nothing consumed
// behind the body. Body sizes straddle the 8 KiB prefetch.
func TestVP_C34_FixedLengthStream(t *testing.T) {
	rapid.Check(t, func(t *rapid.T) {
		var n int
		if rapid.Bool().Draw(t, "near8k") {
			n = 8192 + rapid.IntRange(-3, 3).Draw(t, "d8k")
		} else {
			n = vpC34GenLen(t, 20480)
		}
		body := vpC34Data(n, rapid.IntRange(0, 255).Draw(t, "seed"))
		isResp := rapid.Bool().Draw(t, "response")
		tail := rapid.SampledFrom([]string{"", "GET /next HTTP/1.1\r\nHost: vp\r\n\r\n", "zz"}).Draw(t, "tail")
		var head string
		if isResp {
			head = fmt.Sprintf("HTTP/1.1 200 OK\r\nContent-Length: %d\r\n\r\n", n)
		} else {
			head = fmt.Sprintf("POST /u HTTP/1.1\r\nHost: vp\r\nContent-Length: %d\r\n\r\n", n)
		}
		wire := append(append([]byte(head), body...), tail...)
		split := vpC34GenSplit(t, wire[:min(len(wire), 300)])
		if rapid.Bool().Draw(t, "coarse") {
			split = nil
			hi := rapid.SampledFrom([]int{100, 4096, 9000}).Draw(t, "hi")
			for got := 0; got < len(wire) && len(split) < 300; {
				s := rapid.IntRange(1, hi).Draw(t, "piece")
				split = append(split, s)
				got += s
			}
		}
		cons := vpC34GenConsumer(t)
		bufSize := rapid.SampledFrom([]int{128, 4096, 8192, 16384}).Draw(t, "bufSize")
		maxBody := rapid.SampledFrom([]int{1, 100, 8192, 4 << 20}).Draw(t, "maxBody")
		src := &vpC34SplitReader{data: wire, plan: split, eofWithData: rapid.Bool().Draw(t, "eofWithData")}
		br := bufio.NewReaderSize(src, bufSize)
		var stream io.Reader
		var req Request
		var resp Response
		var err error
		if isResp {
			resp.StreamBody = true
			err = resp.ReadLimitBody(br, maxBody)
			stream = resp.BodyStream()
		} else {
			if err = req.Header.Read(br); err == nil {
				err = req.ContinueReadBodyStream(br, maxBody, false)
			}
			stream = req.BodyStream()
		}
		desc := func() string {
			return fmt.Sprintf("resp=%v len=%d tail=%q buf=%d maxBody=%d split=%s cons=%s", isResp, n, tail, bufSize, maxBody, vpC34Short(split), vpC34Short(cons))
		}
		vpCase(fmt.Sprintf("read/fixedStream/resp=%v", isResp), n > 0 && len(split) >= 2, fmt.Sprintf("%v|%d|%v|%v|%d|%d|%s", isResp, n, split, cons, bufSize, maxBody, tail), desc)
		if err != nil {
			t.Fatalf("C34 violated (fixed-length stream): reading head/prefetch failed: %v\n  %s", err, desc())
		}
		if stream == nil {
			if n == 0 {
				return
			}
			t.Fatalf("C34 violated (fixed-length stream): no body stream for a %d-byte body\n  %s", n, desc())
		}
		got, err := vpC34Drain(stream, cons)
		if err != io.EOF {
			t.Fatalf("C34 violated (fixed-length stream): stream ended with %v after %d of %d bytes\n  %s", err, len(got), n, desc())
		}
		if !bytes.Equal(got, body) {
			t.Fatalf("C34 violated (fixed-length stream): stream returned %d bytes, body has %d (first difference at %d)\n  %s", len(got), n, vpC34FirstDiff(got, body), desc())
		}
		rest, _ := io.ReadAll(br)
		if string(rest) != tail {
			t.Fatalf("C34 violated (fixed-length stream): %s left behind the body, want %q\n  %s", vpC34Snip(rest), tail, desc())
		}
		req.Reset()
		resp.Reset()
	})
}
