package fasthttp

// Shared request grammar (do not edit from a property file): generates single HTTP/1.x requests
// and pipelines, valid and adversarial, as raw bytes plus labels naming the operators applied.

import (
	"bytes"
	"fmt"
	"math/big"
	"strings"

	"pgregory.net/rapid"
)

type vpGenReq struct {
	Raw     []byte
	Labels  []string // adversarial / lenient operators applied ("" when a plain valid request)
	HasBody bool
	Body    []byte // intended payload (before any framing sabotage)
	Method  string
	Target  string
}

type vpGenOpts struct {
	Adversarial  int  // 0..100: probability (percent) that a request receives >=1 adversarial operator
	AllowClose   bool // may emit `Connection: close`
	AllowExpect  bool
	AllowMultipart bool
	MaxBody      int
	LongHeader   int // if >0 a header of about this many bytes may be added
}

const vpSmuggled = "GET /smuggled HTTP/1.1\r\nHost: evil\r\n\r\n"

func vpGenBody(t *rapid.T, max int) []byte {
	if max <= 0 {
		max = 64
	}
	switch rapid.IntRange(0, 5).Draw(t, "bodykind") {
	case 0:
		return []byte(vpSmuggled)
	case 1:
		n := rapid.IntRange(1, max).Draw(t, "bodylen")
		return bytes.Repeat([]byte("x"), n)
	case 2:
		return []byte("a=1&b=2")
	case 3:
		// looks like a chunked stream / next request mixture
		return []byte("0\r\n\r\n" + vpSmuggled)
	case 4:
		n := rapid.IntRange(1, 40).Draw(t, "rndlen")
		return rapid.SliceOfN(rapid.Byte(), n, n).Draw(t, "rndbody")
	default:
		return []byte("5\r\nhello\r\n0\r\n\r\n")
	}
}

// vpGenMultipartBody builds a well-formed multipart/form-data body (boundary "xyz") whose epilogue -
// the bytes after the closing boundary, still inside the framed body - may hold a complete request.
func vpGenMultipartBody(t *rapid.T) []byte {
	var b bytes.Buffer
	n := rapid.IntRange(0, 2).Draw(t, "mpparts")
	for i := 0; i < n; i++ {
		fmt.Fprintf(&b, "--xyz\r\nContent-Disposition: form-data; name=\"f%d\"\r\n\r\nvalue%d\r\n", i, i)
	}
	b.WriteString("--xyz--")
	switch rapid.IntRange(0, 3).Draw(t, "mpepilogue") {
	case 0:
	case 1:
		b.WriteString("\r\n")
	case 2:
		b.WriteString("\r\n" + vpSmuggled)
	default:
		b.WriteString("\r\nepilogue text\r\n")
	}
	return b.Bytes()
}

// vpChunkEncode encodes body as chunked with generated chunk splits; ops may sabotage it.
func vpChunkEncode(t *rapid.T, body []byte, sabotage string) []byte {
	var b bytes.Buffer
	rest := body
	first := true
	for len(rest) > 0 {
		n := rapid.IntRange(1, len(rest)).Draw(t, "chunklen")
		if rapid.IntRange(0, 3).Draw(t, "wholechunk") == 0 {
			n = len(rest)
		}
		size := fmt.Sprintf("%x", n)
		switch rapid.IntRange(0, 9).Draw(t, "sizefmt") {
		case 0:
			size = strings.ToUpper(size)
		case 1:
			size = "000" + size
		}
		ext := ""
		if rapid.IntRange(0, 7).Draw(t, "ext") == 0 {
			ext = rapid.SampledFrom([]string{";a=b", ";x", ";a=\"q;r\"", ";a=b;c=d"}).Draw(t, "extv")
		}
		eol := "\r\n"
		dataEol := "\r\n"
		if first {
			switch sabotage {
			case "chunk-size-barelf":
				eol = "\n"
			case "chunk-ext-lf":
				ext = ";a=b\nc"
			case "chunk-size-0x":
				size = "0x" + size
			case "chunk-size-huge":
				size = "1" + strings.Repeat("0", 16)
			case "chunk-size-wrap64":
				// 2^64 + n: a parser that accumulates into a machine word without counting digits sees n
				size = fmt.Sprintf("1%016x", n)
			case "chunk-size-wrap-long":
				size = fmt.Sprintf("%s%031x", rapid.SampledFrom([]string{"7", "1", "f", "8"}).Draw(t, "wraplead"), n)
			case "chunk-size-16hex":
				// exactly one digit more than the 64-bit limit of 15: top bit set -> negative / huge int
				size = rapid.SampledFrom([]string{"8000000000000000", "ffffffffffffffff", "7fffffffffffffff", "8000000000000005", "f000000000000001"}).Draw(t, "hex16")
			case "chunk-size-neg":
				size = "-" + size
			case "chunk-size-plus":
				size = "+" + size
			case "chunk-data-nocrlf":
				dataEol = ""
			case "chunk-data-lf":
				dataEol = "\n"
			case "chunk-data-xx":
				dataEol = "XX"
			case "chunk-size-ws-ext":
				ext = " ;a=b"
			case "chunk-size-trailing-ws":
				ext = " "
			case "chunk-size-empty":
				size = ""
			case "chunk-size-space-inside":
				size = size[:1] + " " + size[1:]
			}
		}
		first = false
		b.WriteString(size + ext + eol)
		b.Write(rest[:n])
		b.WriteString(dataEol)
		rest = rest[n:]
	}
	last := "0"
	if sabotage == "lastchunk-ext" {
		last = "0;end=1"
	}
	if sabotage == "lastchunk-000" {
		last = "000"
	}
	b.WriteString(last + "\r\n")
	switch sabotage {
	case "trailer":
		b.WriteString("X-Trailer: v\r\n")
	case "trailer-forbidden":
		b.WriteString("Content-Length: 7\r\n")
	case "trailer-nocolon":
		b.WriteString("garbage\r\n")
	case "trailer-barelf":
		b.WriteString("X-T: v\n")
	}
	if sabotage == "no-final-crlf" {
		return b.Bytes()
	}
	b.WriteString("\r\n")
	return b.Bytes()
}

var vpChunkSabotages = []string{
	"chunk-size-barelf", "chunk-ext-lf", "chunk-size-0x", "chunk-size-huge", "chunk-size-16hex", "chunk-size-16hex", "chunk-size-wrap64", "chunk-size-wrap-long", "chunk-size-wrap64", "chunk-size-neg", "chunk-size-plus",
	"chunk-data-nocrlf", "chunk-data-lf", "chunk-data-xx", "chunk-size-ws-ext", "chunk-size-trailing-ws",
	"chunk-size-empty", "chunk-size-space-inside", "lastchunk-ext", "lastchunk-000", "trailer", "trailer-forbidden",
	"trailer-nocolon", "trailer-barelf",
}

var vpFramingOps = []string{
	"cl-wrap64", "cl-wrap63", "cl-dup-same", "cl-dup-diff", "cl-plus", "cl-minus", "cl-0x", "cl-list-same", "cl-list-diff", "cl-empty", "cl-huge",
	"cl-inner-space", "cl-leading-zeros", "cl-trailing-ws", "cl-float",
	"cl-te", "te-cl", "te-identity", "te-identity-cl", "te-case", "te-gzip-chunked", "te-chunked-gzip", "te-chunked-chunked",
	"te-xchunked", "te-param", "te-two-lines", "te-on-10", "te-empty", "te-tab",
	"fold-cl", "fold-te", "ws-colon-cl", "ws-colon-te", "junk-name-cl", "junk-name-te", "underscore-cl",
	"barecr-cl", "cl-short", "cl-long",
}

var vpHeadOps = []string{
	"bare-lf-line", "bare-lf-all", "bare-lf-terminator", "fold-ordinary", "ws-colon-ordinary", "no-colon-line", "empty-name",
	"nul-in-value", "hibit-in-value", "barecr-in-value", "leading-empty-line", "leading-fold", "no-host", "dup-host",
	"http10", "http10-keepalive", "http12", "http09", "lower-method", "custom-method", "absolute-target", "asterisk-target",
	"space-in-target", "tab-in-request-line", "two-spaces", "long-header", "ctl-in-name", "conn-close", "get-with-body",
	"head-with-body",
}

// vpGenRequest generates request number idx (its path is /p<idx>).
func vpGenRequest(t *rapid.T, idx int, o vpGenOpts) vpGenReq {
	var r vpGenReq
	method := rapid.SampledFrom([]string{"GET", "GET", "POST", "POST", "PUT", "HEAD", "DELETE", "OPTIONS", "PATCH"}).Draw(t, "method")
	target := fmt.Sprintf("/p%d", idx)
	if rapid.IntRange(0, 4).Draw(t, "query") == 0 {
		target += "?a=1&b=%20"
	}
	proto := "HTTP/1.1"
	type hdr struct{ name, sep, value, eol string }
	hdrs := []hdr{{"Host", ": ", "example.com", "\r\n"}}
	if rapid.Bool().Draw(t, "ua") {
		hdrs = append(hdrs, hdr{"User-Agent", ": ", "vp/1", "\r\n"})
	}
	if rapid.IntRange(0, 2).Draw(t, "xa") == 0 {
		hdrs = append(hdrs, hdr{"X-A", ": ", "v" + fmt.Sprint(idx), "\r\n"})
	}
	if rapid.IntRange(0, 5).Draw(t, "cookie") == 0 {
		hdrs = append(hdrs, hdr{"Cookie", ": ", "k=v; k2=v2", "\r\n"})
	}
	ops := []string{}
	adversarial := rapid.IntRange(1, 100).Draw(t, "adv") <= o.Adversarial
	var framingOp, headOp, chunkOp string
	if adversarial {
		switch rapid.IntRange(0, 9).Draw(t, "opkind") {
		case 0, 1, 2, 3:
			framingOp = rapid.SampledFrom(vpFramingOps).Draw(t, "framingop")
		case 4, 5:
			chunkOp = rapid.SampledFrom(vpChunkSabotages).Draw(t, "chunkop")
		case 6, 7, 8:
			headOp = rapid.SampledFrom(vpHeadOps).Draw(t, "headop")
		default:
			framingOp = rapid.SampledFrom(vpFramingOps).Draw(t, "framingop")
			headOp = rapid.SampledFrom(vpHeadOps).Draw(t, "headop")
		}
	}
	// body + framing
	framing := "none"
	if method != "GET" && method != "HEAD" && method != "OPTIONS" && method != "DELETE" {
		framing = rapid.SampledFrom([]string{"cl", "cl", "chunked", "chunked", "none", "cl0"}).Draw(t, "framing")
	}
	if framingOp != "" || chunkOp != "" {
		if method == "GET" || method == "HEAD" {
			if rapid.Bool().Draw(t, "advpost") {
				method = "POST"
			}
		}
		if chunkOp != "" {
			framing = "chunked"
		} else if framing == "none" || framing == "cl0" {
			framing = rapid.SampledFrom([]string{"cl", "chunked"}).Draw(t, "advframing")
		}
	}
	if headOp == "get-with-body" {
		method, framing = "GET", rapid.SampledFrom([]string{"cl", "chunked"}).Draw(t, "gwb")
	}
	if headOp == "head-with-body" {
		method, framing = "HEAD", rapid.SampledFrom([]string{"cl", "chunked"}).Draw(t, "hwb")
	}
	var body, wire []byte
	realMultipart := false
	if o.AllowMultipart && (framing == "cl" || framing == "chunked") && rapid.IntRange(0, 5).Draw(t, "realmp") == 0 {
		realMultipart = true
	}
	switch framing {
	case "cl":
		body = vpGenBody(t, o.MaxBody)
		if realMultipart {
			body = vpGenMultipartBody(t)
		}
		wire = body
		hdrs = append(hdrs, hdr{"Content-Length", ": ", fmt.Sprint(len(body)), "\r\n"})
	case "cl0":
		hdrs = append(hdrs, hdr{"Content-Length", ": ", "0", "\r\n"})
	case "chunked":
		body = vpGenBody(t, o.MaxBody)
		wire = vpChunkEncode(t, body, chunkOp)
		hdrs = append(hdrs, hdr{"Transfer-Encoding", ": ", "chunked", "\r\n"})
	}
	if chunkOp != "" {
		ops = append(ops, chunkOp)
	}
	if realMultipart {
		hdrs = append(hdrs, hdr{"Content-Type", ": ", "multipart/form-data; boundary=xyz", "\r\n"})
		ops = append(ops, "multipart-body")
	} else if len(body) > 0 && rapid.IntRange(0, 3).Draw(t, "ctype") == 0 {
		ct := "text/plain"
		if o.AllowMultipart && rapid.IntRange(0, 3).Draw(t, "mp") == 0 {
			ct = "multipart/form-data; boundary=xyz"
			ops = append(ops, "multipart-ctype")
		}
		hdrs = append(hdrs, hdr{"Content-Type", ": ", ct, "\r\n"})
	}
	find := func(name string) int {
		for i := range hdrs {
			if strings.EqualFold(hdrs[i].name, name) {
				return i
			}
		}
		return -1
	}
	insertAt := func(i int, h hdr) {
		hdrs = append(hdrs, hdr{})
		copy(hdrs[i+1:], hdrs[i:])
		hdrs[i] = h
	}
	randPos := func() int { return rapid.IntRange(1, len(hdrs)).Draw(t, "pos") }
	cl, te := find("Content-Length"), find("Transfer-Encoding")
	if framingOp != "" {
		ops = append(ops, framingOp)
		n := len(wire)
		switch framingOp {
		case "cl-dup-same":
			if cl < 0 {
				insertAt(randPos(), hdr{"Content-Length", ": ", fmt.Sprint(n), "\r\n"})
			}
			insertAt(randPos(), hdr{"Content-Length", ": ", fmt.Sprint(n), "\r\n"})
		case "cl-dup-diff":
			if cl < 0 {
				insertAt(randPos(), hdr{"Content-Length", ": ", fmt.Sprint(n), "\r\n"})
			}
			insertAt(randPos(), hdr{"Content-Length", ": ", fmt.Sprint(rapid.IntRange(0, n+3).Draw(t, "cl2")), "\r\n"})
		case "cl-te", "te-cl", "te-identity-cl":
			tev := "chunked"
			if framingOp == "te-identity-cl" {
				tev = "identity"
			}
			clv := rapid.SampledFrom([]int{n, len(body), 0, 4, n + 5}).Draw(t, "clv")
			if cl >= 0 {
				hdrs[cl].value = fmt.Sprint(clv)
				insertAt(rapid.SampledFrom([]int{cl, cl + 1}).Draw(t, "tepos"), hdr{"Transfer-Encoding", ": ", tev, "\r\n"})
			} else {
				hdrs[te].value = tev
				p := te
				if framingOp == "te-cl" {
					p = te + 1
				}
				insertAt(p, hdr{"Content-Length", ": ", fmt.Sprint(clv), "\r\n"})
			}
		default:
			clMut := map[string]string{
				"cl-plus": "+%d", "cl-minus": "-%d", "cl-0x": "0x%x", "cl-list-same": "%[1]d, %[1]d", "cl-list-diff": "%[1]d, 0",
				"cl-empty": "", "cl-huge": "%d0000000000000000000", "cl-wrap64": "WRAP64", "cl-wrap63": "WRAP63", "cl-inner-space": "1 %d", "cl-leading-zeros": "000%d",
				"cl-trailing-ws": "%d \t", "cl-float": "%d.0",
			}
			teMut := map[string]string{
				"te-identity": "identity", "te-case": "ChUnKeD", "te-gzip-chunked": "gzip, chunked", "te-chunked-gzip": "chunked, gzip",
				"te-chunked-chunked": "chunked, chunked", "te-xchunked": "xchunked", "te-param": "chunked;q=1", "te-empty": "",
				"te-tab": "\tchunked\t",
			}
			if f, ok := clMut[framingOp]; ok {
				if cl < 0 { // switch to CL framing of the same wire bytes
					hdrs[te] = hdr{"Content-Length", ": ", "", "\r\n"}
					cl, te = te, -1
				}
				if f == "WRAP64" { // 2^64 + n in decimal: wraps to n in a 64-bit accumulator
					hdrs[cl].value = new(big.Int).Add(new(big.Int).Lsh(big.NewInt(1), 64), big.NewInt(int64(n))).String()
				} else if f == "WRAP63" {
					hdrs[cl].value = new(big.Int).Add(new(big.Int).Lsh(big.NewInt(1), 63), big.NewInt(int64(n))).String()
				} else if strings.Contains(f, "%") {
					hdrs[cl].value = fmt.Sprintf(f, n)
				} else {
					hdrs[cl].value = f
				}
			} else if v, ok := teMut[framingOp]; ok {
				if te < 0 {
					hdrs[cl] = hdr{"Transfer-Encoding", ": ", "", "\r\n"}
					te, cl = cl, -1
					wire = vpChunkEncode(t, body, "")
				}
				hdrs[te].value = v
			} else {
				switch framingOp {
				case "te-two-lines":
					if te < 0 {
						hdrs[cl] = hdr{"Transfer-Encoding", ": ", "chunked", "\r\n"}
						te, cl = cl, -1
						wire = vpChunkEncode(t, body, "")
					}
					insertAt(te, hdr{"Transfer-Encoding", ": ", rapid.SampledFrom([]string{"chunked", "gzip", "identity"}).Draw(t, "te2"), "\r\n"})
				case "te-on-10":
					proto = "HTTP/1.0"
					if te < 0 {
						hdrs[cl] = hdr{"Transfer-Encoding", ": ", "chunked", "\r\n"}
						wire = vpChunkEncode(t, body, "")
					}
					hdrs = append(hdrs, hdr{"Connection", ": ", "keep-alive", "\r\n"})
				case "fold-cl", "fold-te":
					i := cl
					if framingOp == "fold-te" || i < 0 {
						i = te
					}
					if i < 0 {
						i = cl
					}
					v := hdrs[i].value
					hdrs[i].value = "\r\n " + v
					if rapid.Bool().Draw(t, "foldsplit") && len(v) > 1 {
						hdrs[i].value = v[:1] + "\r\n\t" + v[1:]
					}
				case "ws-colon-cl", "ws-colon-te":
					i := cl
					if framingOp == "ws-colon-te" || i < 0 {
						i = te
					}
					if i < 0 {
						i = cl
					}
					hdrs[i].sep = rapid.SampledFrom([]string{" : ", "\t: ", " :"}).Draw(t, "wssep")
				case "junk-name-cl", "junk-name-te":
					i := cl
					if framingOp == "junk-name-te" || i < 0 {
						i = te
					}
					if i < 0 {
						i = cl
					}
					j := rapid.SampledFrom([]string{"\x0b", "\x00", "\x7f", "\xa0", "\x0c"}).Draw(t, "junk")
					if rapid.Bool().Draw(t, "junkfront") {
						hdrs[i].name = j + hdrs[i].name
					} else {
						hdrs[i].name += j
					}
				case "underscore-cl":
					if cl >= 0 {
						hdrs[cl].name = "Content_Length"
					} else {
						hdrs[te].name = "Transfer_Encoding"
					}
				case "barecr-cl":
					i := cl
					if i < 0 {
						i = te
					}
					hdrs[i].value = hdrs[i].value + "\r" + "1"
				case "cl-short":
					if cl >= 0 && n > 1 {
						hdrs[cl].value = fmt.Sprint(rapid.IntRange(0, n-1).Draw(t, "short"))
					}
				case "cl-long":
					if cl >= 0 {
						hdrs[cl].value = fmt.Sprint(n + rapid.IntRange(1, 60).Draw(t, "long"))
					}
				}
			}
		}
	}
	reqLine := ""
	leading := ""
	terminator := "\r\n"
	if headOp != "" {
		ops = append(ops, headOp)
		switch headOp {
		case "bare-lf-line":
			hdrs[rapid.IntRange(0, len(hdrs)-1).Draw(t, "lfline")].eol = "\n"
		case "bare-lf-all":
			for i := range hdrs {
				hdrs[i].eol = "\n"
			}
			terminator = rapid.SampledFrom([]string{"\n", "\r\n"}).Draw(t, "lfterm")
		case "bare-lf-terminator":
			terminator = "\n"
			if rapid.Bool().Draw(t, "lastlf") {
				hdrs[len(hdrs)-1].eol = "\n"
			}
		case "fold-ordinary":
			insertAt(randPos(), hdr{"X-Fold", ": ", "a\r\n b\r\n\tc", "\r\n"})
		case "ws-colon-ordinary":
			insertAt(randPos(), hdr{"X-Ws", " : ", "v", "\r\n"})
		case "no-colon-line":
			insertAt(randPos(), hdr{"garbage-line", "", "", "\r\n"})
		case "empty-name":
			insertAt(randPos(), hdr{"", ": ", "v", "\r\n"})
		case "nul-in-value":
			insertAt(randPos(), hdr{"X-Nul", ": ", "a\x00b", "\r\n"})
		case "hibit-in-value":
			insertAt(randPos(), hdr{"X-Hi", ": ", "caf\xc3\xa9\xff", "\r\n"})
		case "barecr-in-value":
			insertAt(randPos(), hdr{"X-Cr", ": ", "a\rb", "\r\n"})
		case "leading-empty-line":
			leading = rapid.SampledFrom([]string{"\r\n", "\n", "\r\n\r\n"}).Draw(t, "lead")
		case "leading-fold":
			insertAt(0, hdr{" X-Lead", ": ", "v", "\r\n"})
		case "no-host":
			hdrs = hdrs[1:]
		case "dup-host":
			insertAt(randPos(), hdr{"Host", ": ", "other.example", "\r\n"})
		case "http10":
			proto = "HTTP/1.0"
		case "http10-keepalive":
			proto = "HTTP/1.0"
			hdrs = append(hdrs, hdr{"Connection", ": ", "keep-alive", "\r\n"})
		case "http12":
			proto = "HTTP/1.2"
		case "http09":
			proto = "HTTP/0.9"
		case "lower-method":
			method = strings.ToLower(method)
		case "custom-method":
			method = "VPCUSTOM"
		case "absolute-target":
			target = "http://example.com" + target
		case "asterisk-target":
			method, target = "OPTIONS", "*"
		case "space-in-target":
			target += " x"
		case "tab-in-request-line":
			reqLine = method + "\t" + target + " " + proto
		case "two-spaces":
			reqLine = method + "  " + target + " " + proto
		case "long-header":
			n := o.LongHeader
			if n <= 0 {
				n = 300
			}
			insertAt(randPos(), hdr{"X-Long", ": ", strings.Repeat("z", n), "\r\n"})
		case "ctl-in-name":
			insertAt(randPos(), hdr{"X-\x01Ctl", ": ", "v", "\r\n"})
		case "conn-close":
			if o.AllowClose {
				hdrs = append(hdrs, hdr{"Connection", ": ", "close", "\r\n"})
			}
		}
	}
	if o.AllowExpect && len(wire) > 0 && rapid.IntRange(0, 9).Draw(t, "expect") == 0 {
		hdrs = append(hdrs, hdr{"Expect", ": ", "100-continue", "\r\n"})
		ops = append(ops, "expect-100")
	}
	if reqLine == "" {
		reqLine = method + " " + target + " " + proto
	}
	var b bytes.Buffer
	b.WriteString(leading)
	b.WriteString(reqLine)
	b.WriteString("\r\n")
	// field names are case-insensitive: now and then a request spells them differently (valid HTTP; with
	// DisableHeaderNamesNormalizing the server sees them exactly so)
	recase := rapid.IntRange(0, 5).Draw(t, "recaseNames")
	for _, h := range hdrs {
		name := h.name
		switch {
		case recase == 0:
			name = strings.ToLower(name)
		case recase == 1:
			name = strings.ToUpper(name)
		case recase == 2 && len(name) > 1:
			name = strings.ToLower(name[:1]) + strings.ToUpper(name[1:])
		}
		b.WriteString(name + h.sep + h.value + h.eol)
	}
	if recase <= 2 && len(hdrs) > 0 {
		ops = append(ops, "recased-names")
	}
	b.WriteString(terminator)
	b.Write(wire)
	r.Raw = b.Bytes()
	r.Labels = ops
	r.HasBody = len(wire) > 0
	r.Body = body
	r.Method, r.Target = method, target
	return r
}

// vpGenPipeline generates n requests back to back.
func vpGenPipeline(t *rapid.T, n int, o vpGenOpts) (raw []byte, reqs []vpGenReq) {
	for i := 0; i < n; i++ {
		r := vpGenRequest(t, i, o)
		reqs = append(reqs, r)
		raw = append(raw, r.Raw...)
	}
	return raw, reqs
}

// vpGenSplit draws a read-split plan for an input of the given length, with cut points biased
// towards the structurally interesting offsets passed in `hot` (ends of heads, CRLFs, chunk lines).
func vpGenSplit(t *rapid.T, total int, hot []int) []int {
	switch rapid.IntRange(0, 5).Draw(t, "splitkind") {
	case 0:
		return nil // everything in one Read (as far as the buffer allows)
	case 1:
		return []int{1}
	case 2:
		return []int{rapid.IntRange(2, 17).Draw(t, "splitk")}
	case 3:
		// cut exactly at / around hot offsets
		var cuts []int
		for _, h := range hot {
			switch rapid.IntRange(0, 3).Draw(t, "hotd") {
			case 0:
				cuts = append(cuts, h)
			case 1:
				cuts = append(cuts, h-1)
			case 2:
				cuts = append(cuts, h+1)
			}
		}
		var sizes []int
		prev := 0
		for _, c := range cuts {
			if c > prev && c < total {
				sizes = append(sizes, c-prev)
				prev = c
			}
		}
		sizes = append(sizes, 1<<20)
		return sizes
	default:
		n := rapid.IntRange(1, 8).Draw(t, "nsizes")
		sizes := make([]int, n)
		for i := range sizes {
			sizes[i] = rapid.IntRange(1, 90).Draw(t, "sz")
		}
		return sizes
	}
}

// vpHotOffsets returns offsets right after every LF in b (line and head ends).
func vpHotOffsets(b []byte, max int) []int {
	var out []int
	for i, c := range b {
		if c == '\n' {
			out = append(out, i+1)
			if len(out) >= max {
				break
			}
		}
	}
	return out
}
