#!/usr/bin/env python3
"""Prints the markdown table of seeded changes (from seeded/*/meta.json) used in DESIGN.md §10."""
import glob, json, os
rows = []
for f in sorted(glob.glob(os.path.join(os.path.dirname(os.path.abspath(__file__)), "seeded", "*", "meta.json"))):
    m = json.load(open(f))
    d = os.path.basename(os.path.dirname(f))
    c = m.get("check_result", {})
    conf = m.get("confirmation", {}).get("confirmed")
    caught = "quick" if str(c.get("quick", "")).startswith("VIOLATION") else ("thorough" if str(c.get("thorough", "")).startswith("VIOLATION") else "NO")
    if c.get("caught_by"):
        caught = c["caught_by"]
    rows.append("| %s | %s | %s | %s | %s | %s |" % (d, m.get("property"), (m.get("summary") or "").replace("|", "/")[:230], (m.get("needs") or "").replace("|", "/")[:200], "yes" if conf else "NO", caught + ((" (after: " + m["strengthened"] + ")") if m.get("strengthened") else "")))
print("| dir | property | change | needs to manifest | confirmed | caught by |")
print("|---|---|---|---|---|---|")
print("\n".join(rows))
